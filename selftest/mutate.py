#!/usr/bin/env python3
"""Systematic single-edit mutants of /repo/src against the quick checks.

  selftest/mutate.py --n 200 --jobs 4 --seed 1 [--files src/mem.rs,src/cart.rs] [--out work/mutants]

For every mutant: apply it in a scratch worktree slot (/tmp/mutslot_<k>, reused so
that builds are incremental), require that the project still builds and that
the pinned suite still passes with and without --features jit (otherwise the
mutant is not interesting: the existing tests already reject it), then run the
quick checks with GBV_REPO pointing at the slot - first the checks that own the
mutated file, then, if it survived those, all the others. One JSON line per
mutant is appended to <out>/results.jsonl:

  {"id", "file", "line", "op", "before", "after", "status", "killed_by", "signatures"}

status: stillborn (does not compile) | killed-by-suite | killed (some check exits 1)
        | survived (every check exits 0) | inconclusive (a check exited 2)

Survivors are either equivalent mutants or blind spots: they are triaged by hand
(DESIGN.md 8.9). Nothing here touches /repo; the slots are removed at the end.
"""
import argparse, hashlib, json, os, random, re, subprocess, sys, threading, time

REPO = "/repo"
VERIF = os.path.dirname(os.path.dirname(os.path.abspath(__file__)))  # /verif, or the snapshot `vp run` works in
ALL = ["C%02d" % i for i in range(1, 21)]

OWNERS = [
    (r"^src/emitter/", ["C01", "C02", "C04"]),
    (r"^src/interpreter/", ["C05", "C06", "C08", "C01"]),
    (r"^src/decoder/", ["C06", "C20", "C02", "C05", "C01"]),
    (r"^src/mem\.rs", ["C10", "C11", "C16", "C12"]),
    (r"^src/cart\.rs", ["C12", "C19", "C11", "C10"]),
    (r"^src/devices/timer", ["C13", "C10", "C09"]),
    (r"^src/devices/video", ["C14", "C15", "C10", "C09"]),
    (r"^src/devices/lcd", ["C14", "C15"]),
    (r"^src/devices/joypad", ["C17", "C10"]),
    (r"^src/devices/serial", ["C18", "C10"]),
    (r"^src/devices/", ["C10", "C07", "C13", "C17", "C18", "C14"]),
    (r"^src/emulator\.rs", ["C07", "C08", "C09", "C04", "C03"]),
    (r"^src/cache/", ["C03", "C04", "C01", "C18"]),
    (r"^src/debug/", ["C20"]),
    (r"^src/", ["C01", "C05", "C09"]),
]

OPS = [
    ("add->sub", r" \+ ", " - "), ("sub->add", r" - ", " + "),
    ("lt->le", r" < ", " <= "), ("le->lt", r" <= ", " < "), ("gt->ge", r" > ", " >= "), ("ge->gt", r" >= ", " > "),
    ("eq->ne", r" == ", " != "), ("ne->eq", r" != ", " == "),
    ("and->or", r" & ", " | "), ("or->and", r" \| ", " & "), ("xor->or", r" \^ ", " | "),
    ("shl->shr", r" << ", " >> "), ("shr->shl", r" >> ", " << "),
    ("land->lor", r" && ", " || "), ("lor->land", r" \|\| ", " && "),
    ("+=->-=", r" \+= ", " -= "), ("-=->+=", r" -= ", " += "), ("|=->&=", r" \|= ", " &= "), ("&=->|=", r" &= ", " |= "),
    ("wadd->wsub", r"wrapping_add", "wrapping_sub"), ("wsub->wadd", r"wrapping_sub", "wrapping_add"),
    ("true->false", r"\btrue\b", "false"), ("false->true", r"\bfalse\b", "true"),
]


def code_part(line):
    """the part of the line that is code: no // comment, no string literals"""
    i = line.find("//")
    if i >= 0:
        line = line[:i]
    return line


def candidate_sites(path, rel):
    sites = []
    try:
        lines = open(path).read().split("\n")
    except Exception:
        return sites
    in_tests = False
    skip_next = 0
    for ln, line in enumerate(lines):
        s = line.strip()
        if s.startswith("#[cfg(test)]"):
            in_tests = True
        if in_tests:
            continue
        if "verif" in line:
            skip_next = 3 if "cfg(" in line else 0
            continue
        if skip_next > 0:
            skip_next -= 1
            continue
        if not s or s.startswith("//") or s.startswith("#[") or s.startswith("use ") or s.startswith("pub use "):
            continue
        if '"' in line or "println!" in line or "panic!" in line or "assert" in line:
            continue
        code = code_part(line)
        for name, pat, rep in OPS:
            for m in re.finditer(pat, code):
                sites.append((rel, ln, name, m.start(), m.end(), rep))
        for m in re.finditer(r"\b0x[0-9a-fA-F]+\b", code):
            v = int(m.group(0), 16)
            width = len(m.group(0)) - 2
            for d, nm in ((1, "hex+1"), (-1, "hex-1")):
                nv = v + d
                if nv < 0 or nv >= 16 ** width:
                    continue
                sites.append((rel, ln, nm, m.start(), m.end(), "0x%0*x" % (width, nv)))
        for m in re.finditer(r"(?<![\w.])\d+(?![\w.])", code):
            v = int(m.group(0))
            if v > 100000:
                continue
            for d, nm in ((1, "dec+1"), (-1, "dec-1")):
                if v + d < 0:
                    continue
                sites.append((rel, ln, nm, m.start(), m.end(), str(v + d)))
        # statement deletion: plain assignments and calls
        if re.match(r"^\s*(self\.|\*|[a-z_][a-z_0-9\.\[\]]*\s*(=|\+=|-=|\|=|&=)|[a-z_][a-z_0-9:\.]*\()", line) and s.endswith(";") and not s.startswith("let ") and not s.startswith("return"):
            sites.append((rel, ln, "delete-statement", 0, len(line), "// " + s))
    return sites


def run(cmd, cwd=None, env=None, timeout=3600):
    try:
        p = subprocess.run(cmd, cwd=cwd, env=env, stdout=subprocess.PIPE, stderr=subprocess.STDOUT, timeout=timeout)
        return p.returncode, p.stdout.decode("utf-8", "replace")
    except subprocess.TimeoutExpired:
        return 124, "timeout"


def owners_of(rel):
    for pat, ids in OWNERS:
        if re.search(pat, rel):
            return ids
    return []


class Slot:
    def __init__(self, k):
        self.path = "/tmp/mutslot_%s_%d" % (hashlib.sha1(VERIF.encode()).hexdigest()[:6], k)
        run(["git", "-C", REPO, "worktree", "remove", "--force", self.path])
        rc, out = run(["git", "-C", REPO, "worktree", "add", "-q", "--detach", self.path, "HEAD"])
        if rc != 0:
            raise RuntimeError(out)

    def reset(self):
        run(["git", "-C", self.path, "checkout", "-q", "--", "."])

    def close(self):
        run(["git", "-C", REPO, "worktree", "remove", "--force", self.path])
        h = hashlib.sha1(self.path.encode()).hexdigest()[:8]
        for d in os.listdir(os.path.join(VERIF, "target")):
            if d.endswith("-" + h):
                run(["rm", "-rf", os.path.join(VERIF, "target", d)])
        run(["git", "-C", REPO, "worktree", "prune"])


def evaluate(slot, mid, site, outdir, lock):
    rel, ln, op, a, b, rep = site
    slot.reset()
    path = os.path.join(slot.path, rel)
    lines = open(path).read().split("\n")
    before = lines[ln]
    after = before[:a] + rep + before[b:]
    lines[ln] = after
    open(path, "w").write("\n".join(lines))
    rec = {"id": mid, "file": rel, "line": ln + 1, "op": op, "before": before.strip(), "after": after.strip(), "killed_by": [], "signatures": [], "inconclusive": []}
    env = dict(os.environ, CARGO_NET_OFFLINE="true")
    t0 = time.time()
    for feat in ([], ["--features", "jit"]):
        rc, out = run(["cargo", "test", "--offline"] + feat, cwd=slot.path, env=env, timeout=1200)
        if "error: could not compile" in out or "error[E" in out:
            rec["status"] = "stillborn"
            break
        if rc != 0 or "test result: ok" not in out:
            rec["status"] = "killed-by-suite"
            break
    if "status" not in rec:
        env2 = dict(env, GBV_REPO=slot.path)
        own = owners_of(rel)
        order = own + [c for c in ALL if c not in own]
        for i, c in enumerate(order):
            if rec["killed_by"]:
                break  # killed: the remaining checks are not needed
            rc, out = run([os.path.join(VERIF, "check"), c], cwd=VERIF, env=env2, timeout=3000)
            if rc == 1:
                rec["killed_by"].append(c)
                sigs = re.findall(r"^  signature: (\S+)", out, re.M)
                rec["signatures"] += sigs[:3]
            elif rc != 0:
                rec["inconclusive"].append(c)
        rec["status"] = "killed" if rec["killed_by"] else ("inconclusive" if rec["inconclusive"] else "survived")
    rec["seconds"] = round(time.time() - t0, 1)
    with lock:
        with open(os.path.join(outdir, "results.jsonl"), "a") as f:
            f.write(json.dumps(rec) + "\n")
        print("MUTANT %s %s:%d %s -> %s %s %s | %s => %s" % (mid, rel, ln + 1, op, rec["status"], ",".join(rec["killed_by"]), rec["signatures"][:1], rec["before"][:100], rec["after"][:100]), flush=True)


def main():
    ap = argparse.ArgumentParser()
    ap.add_argument("--n", type=int, default=100)
    ap.add_argument("--jobs", type=int, default=4)
    ap.add_argument("--seed", type=int, default=1)
    ap.add_argument("--files", default="")
    ap.add_argument("--out", default=os.path.join(VERIF, "work", "mutants"))
    a = ap.parse_args()
    os.makedirs(a.out, exist_ok=True)
    rels = []
    if a.files:
        rels = a.files.split(",")
    else:
        for root, _, files in os.walk(os.path.join(REPO, "src")):
            for f in files:
                if f.endswith(".rs"):
                    rel = os.path.relpath(os.path.join(root, f), REPO)
                    if rel.startswith("src/verif") or "windows" in rel or rel in ("src/main.rs",) or rel.startswith("src/shell") or rel.startswith("src/audio"):
                        continue
                    rels.append(rel)
    rng = random.Random(a.seed)
    per_file = {}
    for rel in sorted(rels):
        s = candidate_sites(os.path.join(REPO, rel), rel)
        if s:
            per_file[rel] = s
    # sample files proportionally to sqrt(#sites) so that the 3000-line emitter does not take everything
    files = sorted(per_file)
    weights = [len(per_file[f]) ** 0.5 for f in files]
    chosen, seen = [], set()
    while len(chosen) < a.n and len(seen) < sum(len(v) for v in per_file.values()):
        f = rng.choices(files, weights)[0]
        s = rng.choice(per_file[f])
        key = (s[0], s[1], s[2], s[3])
        if key in seen:
            continue
        seen.add(key)
        chosen.append(s)
    print("mutation sites: %d in %d files; evaluating %d" % (sum(len(v) for v in per_file.values()), len(files), len(chosen)), flush=True)
    lock = threading.Lock()
    queue = list(enumerate(chosen))
    qlock = threading.Lock()

    def worker(k):
        slot = Slot(k)
        try:
            while True:
                with qlock:
                    if not queue:
                        return
                    i, site = queue.pop(0)
                try:
                    evaluate(slot, "s%d-%04d" % (a.seed, i), site, a.out, lock)
                except Exception as e:  # keep going: one bad mutant must not end the campaign
                    print("MUTANT s%d-%04d harness error: %r" % (a.seed, i, e), flush=True)
        finally:
            slot.close()

    ts = [threading.Thread(target=worker, args=(k,)) for k in range(a.jobs)]
    for t in ts:
        t.start()
    for t in ts:
        t.join()
    # summary
    counts = {}
    for line in open(os.path.join(a.out, "results.jsonl")):
        r = json.loads(line)
        counts[r["status"]] = counts.get(r["status"], 0) + 1
    print("SUMMARY", json.dumps(counts))


if __name__ == "__main__":
    main()
