#!/bin/bash
# Adopt a seeded change delivered by a sub-agent:
#   selftest/adopt.sh <scratch-prefix> <name> <CHECK-ID> [<CHECK-ID> ...]
# copies <scratch-prefix>_out/{patch.diff,demo*,NOTES.md,run_*} to /verif/seeded/<name>/,
# evaluates the patch with run_seeded.sh (own scratch worktree) and removes the
# sub-agent's worktree <scratch-prefix> and its output directory.
set -u
PFX="$1"; NAME="$2"; shift 2
cd /verif
mkdir -p "seeded/$NAME"
cp "${PFX}_out/patch.diff" "seeded/$NAME/patch.diff" || exit 3
for f in "${PFX}_out"/demo* "${PFX}_out"/NOTES.md "${PFX}_out"/run_*; do
  [ -f "$f" ] && cp "$f" "seeded/$NAME/"
done
selftest/run_seeded.sh "seeded/$NAME/patch.diff" "$NAME" "$@" 2>&1 | tee "seeded/$NAME/evaluation.txt"
git -C /repo worktree remove --force "$PFX" >/dev/null 2>&1
rm -rf "$PFX" "${PFX}_out"
git -C /repo worktree prune
