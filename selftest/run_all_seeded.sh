#!/bin/bash
# Re-evaluate every seeded change in seeded/ against the check of its own property and the
# checks its meta.json names under caught_by (quick tier), N at a time (default 4). One
# summary line per change:
#   ALLSEEDED <name> property=<id> checks=<ids> fired=<ids that exit 1> expected=<caught|missed>
# Scratch worktrees live under /tmp and are removed by run_seeded.sh. Works from a copy of
# /verif as well (vp run): everything is relative to this script.
set -u
N="${1:-4}"
cd "$(dirname "$(readlink -f "$0")")/.."; VROOT="$(pwd)"
mkdir -p work/allseeded
one() {
  d="$1"
  name=$(basename "$d")
  checks=$(python3 - "$d/meta.json" <<'EOF'
import json, re, sys
m = json.load(open(sys.argv[1]))
ids = [m['property']]
for c in m.get('caught_by', []):
    ids += re.findall(r'\bC\d\d\b', c.split('(')[0])
seen = []
for i in ids:
    if i not in seen:
        seen.append(i)
print(' '.join(seen))
EOF
)
  prop=$(python3 -c "import json,sys;print(json.load(open(sys.argv[1]))['property'])" "$d/meta.json")
  exp=$(python3 -c "import json,sys;print('caught' if json.load(open(sys.argv[1]))['caught_by'] else 'missed')" "$d/meta.json")
  selftest/run_seeded.sh "$d/patch.diff" "$name" $checks > "work/allseeded/$name.log" 2>&1
  fired=$(grep -o "check C[0-9][0-9] exit=1" "work/allseeded/$name.log" | awk '{print $2}' | tr '\n' ',')
  echo "ALLSEEDED $name property=$prop checks=$(echo $checks | tr ' ' ',') fired=${fired:-none} expected=$exp"
}
export -f one
ls -d seeded/*/ | xargs -P "$N" -I{} bash -c 'one {}'
