#!/bin/bash
# Re-evaluate every seeded change in /verif/seeded against the check of its own
# property (quick tier), N at a time (default 4). One summary line per change:
#   ALLSEEDED <name> property=<id> exit=<rc> expected=<caught|missed>
# Scratch worktrees live under /tmp and are removed by run_seeded.sh.
set -u
N="${1:-4}"
cd /verif
mkdir -p work/allseeded
one() {
  d="$1"
  name=$(basename "$d")
  prop=$(python3 -c "import json,sys;print(json.load(open(sys.argv[1]))['property'])" "$d/meta.json")
  exp=$(python3 -c "import json,sys;print('caught' if json.load(open(sys.argv[1]))['caught_by'] else 'missed')" "$d/meta.json")
  selftest/run_seeded.sh "$d/patch.diff" "$name" "$prop" > "work/allseeded/$name.log" 2>&1
  rc=$(grep -o "check $prop exit=[0-9]*" "work/allseeded/$name.log" | grep -o "[0-9]*$")
  echo "ALLSEEDED $name property=$prop exit=${rc:-?} expected=$exp"
}
export -f one
ls -d seeded/*/ | xargs -P "$N" -I{} bash -c 'one {}'
