#!/bin/bash
# run every quick check once at the given seeds (default 1 2 3)
cd "$(dirname "$0")/.."
./check --build | tail -3
for s in ${@:-1 2 3}; do
  for c in C01 C02 C03 C04 C05 C06 C07 C08 C09 C10 C11 C12 C13 C14 C15 C16 C17 C18 C19 C20; do
    VERIF_SEED=$s /usr/bin/time -f "$c seed=$s wall=%es" ./check $c 2>&1 | grep -E "^(OK|VIOLATION|INCONCLUSIVE|KNOWN|  signature)|wall=" | cut -c1-220
  done
done
