#!/bin/bash
# usage: selftest/thorough_some.sh C05 C06 ...   (thorough tier of the named checks, one after the other)
cd "$(dirname "$0")/.."
./check --build | tail -2
for c in "$@"; do
  /usr/bin/time -f "$c wall=%es" ./check $c --tier thorough 2>&1 | grep -E "^(OK|VIOLATION|INCONCLUSIVE|KNOWN|  signature)|wall=" | cut -c1-260
done
