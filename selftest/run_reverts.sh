#!/bin/bash
# For every repaired defect in known_findings.json: take a scratch worktree of
# /repo's HEAD, revert the 'fix:' commit there (git revert -n; skipped when it
# does not revert cleanly because a later repair touches the same lines), and
# run the checks of the properties recorded for that commit against it.
# Optional argument: comma-separated list of commits to restrict the run to.
# Expected: exit 1 and the recorded signature among the reported ones.
#   REVERT <commit> <property> exit=<rc> recorded-signature=<seen|not-seen> <signature>
set -u
cd "$(dirname "$0")/.."
LIST=/tmp/reverts_$$.txt
ONLY="${1:-}" python3 - <<'EOF' | sort -s -t$'\t' -k1,1 > "$LIST"
import json, os
d = json.load(open('known_findings.json'))
for e in d['findings']:
    if e.get('status') == 'fixed' and (not os.environ.get('ONLY') or e['commit'] in os.environ['ONLY'].split(',')):
        print("%s\t%s\t%s" % (e['commit'], e['property'], e['signature']))
EOF
CUR=""; WT=""; OK=0
drop() {
  [ -n "$WT" ] || return
  git -C /repo worktree remove --force "$WT" >/dev/null 2>&1
  H=$(python3 -c "import hashlib,sys;print(hashlib.sha1(sys.argv[1].encode()).hexdigest()[:8])" "$WT")
  rm -rf target/*-"$H"
  WT=""
}
while IFS=$'\t' read -r COMMIT P S; do
  if [ "$COMMIT" != "$CUR" ]; then
    drop
    CUR="$COMMIT"; WT="/tmp/revert_${COMMIT}_$$"; OK=1
    git -C /repo worktree add -q "$WT" HEAD || { OK=0; WT=""; continue; }
    if ! git -C "$WT" revert -n "$COMMIT" >/dev/null 2>&1; then
      echo "REVERT $COMMIT does-not-revert-cleanly (a later repair touches the same lines)"
      OK=0
    fi
  fi
  [ "$OK" = 1 ] || continue
  OUT=$(GBV_REPO="$WT" ./check "$P" 2>&1); RC=$?
  if echo "$OUT" | grep -qF "signature: $S"; then SEEN=seen; else SEEN=not-seen; fi
  echo "REVERT $COMMIT $P exit=$RC recorded-signature=$SEEN $S"
done < "$LIST"
drop
# 18c7b37 (diagnostic moved to stderr) is unreachable on its own since 0a2a733
# keeps 2 MiB free: revert both to see C18's signature again
WT="/tmp/revert_both_$$"
if git -C /repo worktree add -q "$WT" HEAD && git -C "$WT" revert -n 0a2a733 >/dev/null 2>&1 && git -C "$WT" revert -n 18c7b37 >/dev/null 2>&1; then
  OUT=$(GBV_REPO="$WT" ./check C18 2>&1); RC=$?
  S="C18:jit:core-prints-on-stdout:translation-cache-nearly-full"
  if echo "$OUT" | grep -qF "signature: $S"; then SEEN=seen; else SEEN=not-seen; fi
  echo "REVERT 0a2a733+18c7b37 C18 exit=$RC recorded-signature=$SEEN $S"
fi
drop
rm -f "$LIST"
git -C /repo worktree prune
