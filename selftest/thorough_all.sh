#!/bin/bash
# run every thorough check once (used through `vp run` to size and validate the thorough tier)
cd "$(dirname "$0")/.."
./check --build | tail -3
for c in C05 C06 C07 C08 C10 C11 C12 C13 C14 C15 C17 C20 C09 C16 C18 C19 C04 C03 C01 C02; do
  /usr/bin/time -f "$c wall=%es" ./check $c --tier thorough 2>&1 | grep -E "^(OK|VIOLATION|INCONCLUSIVE|KNOWN|  signature)|wall=" | cut -c1-220
done
