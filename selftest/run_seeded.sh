#!/bin/bash
# Evaluate a seeded change against the checks without touching /repo:
#   selftest/run_seeded.sh <patch.diff> <tag> <CHECK-ID> [<CHECK-ID> ...]
# Creates a scratch worktree of /repo's HEAD under /tmp, applies the patch,
# verifies that it compiles and that the pinned suite still passes (with and
# without --features jit), runs the named checks with GBV_REPO pointing at the
# worktree (quick tier unless VERIF_TIER is set), prints one line per check and
# removes the worktree together with its build output.
set -u
PATCH="$(readlink -f "$1")"; TAG="$2"; shift 2
WT="/tmp/seeded_${TAG}_$$"
cd "$(dirname "$(readlink -f "$0")")/.."; VROOT="$(pwd)"
git -C /repo worktree add -q "$WT" HEAD || exit 3
cleanup() {
  git -C /repo worktree remove --force "$WT" >/dev/null 2>&1
  H=$(python3 -c "import hashlib,sys;print(hashlib.sha1(sys.argv[1].encode()).hexdigest()[:8])" "$WT")
  rm -rf "$VROOT"/target/*-"$H"
}
trap cleanup EXIT
if ! git -C "$WT" apply "$PATCH"; then echo "SEEDED $TAG: patch does not apply"; exit 3; fi
T1=$(cd "$WT" && cargo test --offline 2>&1 | grep -E "^test result" | head -1)
T2=$(cd "$WT" && cargo test --offline --features jit 2>&1 | grep -E "^test result" | head -1)
echo "SEEDED $TAG: suite without jit: ${T1:-BUILD FAILED}"
echo "SEEDED $TAG: suite with jit:    ${T2:-BUILD FAILED}"
rm -rf "$WT/target"
for C in "$@"; do
  OUT=$(GBV_REPO="$WT" ./check "$C" 2>&1)
  RC=$?
  SIGS=$(echo "$OUT" | grep -E "^  signature:" | head -4 | sed 's/^  signature: //' | tr '\n' ';')
  echo "SEEDED $TAG: check $C exit=$RC $(echo "$OUT" | tail -1 | cut -c1-140) | $SIGS"
done
