pub mod cpu;
