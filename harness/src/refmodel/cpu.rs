//! Reference SM83 model, written from the public instruction-set documentation
//! (Pan Docs "CPU instruction set", the gbops opcode matrix), decoding by the
//! octal x/y/z/p/q fields of the opcode. It shares no code and no structure
//! with the repository's decoder/interpreter.

pub trait Bus {
  fn read(&mut self, addr: u16) -> u8;
  fn write(&mut self, addr: u16, value: u8);
}

#[derive(Copy, Clone, Debug, Eq, PartialEq)]
pub struct Cpu {
  pub a: u8,
  pub f: u8,
  pub b: u8,
  pub c: u8,
  pub d: u8,
  pub e: u8,
  pub h: u8,
  pub l: u8,
  pub sp: u16,
  pub pc: u16,
}

pub const FZ: u8 = 0x80;
pub const FN: u8 = 0x40;
pub const FH: u8 = 0x20;
pub const FC: u8 = 0x10;

#[derive(Copy, Clone, Debug, Eq, PartialEq)]
pub enum Effect {
  Normal,
  Stop,
  Halt,
  DisableInterrupts,
  EnableInterruptsDelayed,
  EnableInterruptsNow, // RETI
  Undefined,
}

#[derive(Copy, Clone, Debug, Eq, PartialEq)]
pub struct Info {
  pub len: u8,
  pub cycles: u8,       // machine cycles when not taken / unconditional
  pub cycles_taken: u8, // machine cycles when the condition holds
  pub conditional: bool,
  pub block_end: bool,
  pub undefined: bool,
}

#[derive(Copy, Clone, Debug, Eq, PartialEq)]
pub struct Step {
  pub info: Info,
  pub taken: bool,
  pub cycles: u8,
  pub effect: Effect,
}

impl Cpu {
  pub fn af(&self) -> u16 {
    ((self.a as u16) << 8) | self.f as u16
  }
  pub fn bc(&self) -> u16 {
    ((self.b as u16) << 8) | self.c as u16
  }
  pub fn de(&self) -> u16 {
    ((self.d as u16) << 8) | self.e as u16
  }
  pub fn hl(&self) -> u16 {
    ((self.h as u16) << 8) | self.l as u16
  }
  pub fn set_bc(&mut self, v: u16) {
    self.b = (v >> 8) as u8;
    self.c = v as u8;
  }
  pub fn set_de(&mut self, v: u16) {
    self.d = (v >> 8) as u8;
    self.e = v as u8;
  }
  pub fn set_hl(&mut self, v: u16) {
    self.h = (v >> 8) as u8;
    self.l = v as u8;
  }
  pub fn from_pairs(af: u16, bc: u16, de: u16, hl: u16, sp: u16, pc: u16) -> Cpu {
    Cpu {
      a: (af >> 8) as u8,
      f: af as u8,
      b: (bc >> 8) as u8,
      c: bc as u8,
      d: (de >> 8) as u8,
      e: de as u8,
      h: (hl >> 8) as u8,
      l: hl as u8,
      sp,
      pc,
    }
  }
  fn flag(&self, m: u8) -> bool {
    self.f & m != 0
  }
  fn set_flags(&mut self, z: bool, n: bool, h: bool, c: bool) {
    self.f = (if z { FZ } else { 0 }) | (if n { FN } else { 0 }) | (if h { FH } else { 0 }) | (if c { FC } else { 0 });
  }
}

pub fn is_undefined(op: u8) -> bool {
  matches!(op, 0xd3 | 0xdb | 0xdd | 0xe3 | 0xe4 | 0xeb | 0xec | 0xed | 0xf4 | 0xfc | 0xfd)
}

/// Static facts about an encoding (first byte, and the second byte when the
/// first is the CB prefix).
pub fn info(op: u8, cb: u8) -> Info {
  let mut i = Info { len: 1, cycles: 1, cycles_taken: 1, conditional: false, block_end: false, undefined: false };
  if is_undefined(op) {
    i.undefined = true;
    return i;
  }
  let x = op >> 6;
  let y = (op >> 3) & 7;
  let z = op & 7;
  let p = y >> 1;
  let q = y & 1;
  match x {
    0 => match z {
      0 => match y {
        0 => {}
        1 => {
          i.len = 3;
          i.cycles = 5;
        }
        2 => {
          i.len = 2;
          i.block_end = true;
        }
        3 => {
          i.len = 2;
          i.cycles = 3;
          i.block_end = true;
        }
        _ => {
          i.len = 2;
          i.cycles = 2;
          i.cycles_taken = 3;
          i.conditional = true;
          i.block_end = true;
        }
      },
      1 => {
        if q == 0 {
          i.len = 3;
          i.cycles = 3;
        } else {
          i.cycles = 2;
        }
      }
      2 | 3 => i.cycles = 2,
      4 | 5 => i.cycles = if y == 6 { 3 } else { 1 },
      6 => {
        i.len = 2;
        i.cycles = if y == 6 { 3 } else { 2 };
      }
      _ => {}
    },
    1 => {
      if op == 0x76 {
        i.block_end = true;
      } else if y == 6 || z == 6 {
        i.cycles = 2;
      }
    }
    2 => {
      if z == 6 {
        i.cycles = 2;
      }
    }
    _ => match z {
      0 => match y {
        0..=3 => {
          i.cycles = 2;
          i.cycles_taken = 5;
          i.conditional = true;
          i.block_end = true;
        }
        4 | 6 => {
          i.len = 2;
          i.cycles = 3;
        }
        5 => {
          i.len = 2;
          i.cycles = 4;
        }
        _ => {
          i.len = 2;
          i.cycles = 3;
        }
      },
      1 => {
        if q == 0 {
          i.cycles = 3;
        } else {
          match p {
            0 | 1 => {
              i.cycles = 4;
              i.block_end = true;
            }
            2 => {
              i.cycles = 1;
              i.block_end = true;
            }
            _ => i.cycles = 2,
          }
        }
      }
      2 => match y {
        0..=3 => {
          i.len = 3;
          i.cycles = 3;
          i.cycles_taken = 4;
          i.conditional = true;
          i.block_end = true;
        }
        4 | 6 => i.cycles = 2,
        _ => {
          i.len = 3;
          i.cycles = 4;
        }
      },
      3 => match y {
        0 => {
          i.len = 3;
          i.cycles = 4;
          i.block_end = true;
        }
        1 => {
          i.len = 2;
          let cz = cb & 7;
          let cx = cb >> 6;
          i.cycles = if cz == 6 {
            if cx == 1 {
              3
            } else {
              4
            }
          } else {
            2
          };
        }
        6 | 7 => i.block_end = true,
        _ => unreachable!(),
      },
      4 => {
        i.len = 3;
        i.cycles = 3;
        i.cycles_taken = 6;
        i.conditional = true;
        i.block_end = true;
      }
      5 => {
        if q == 0 {
          i.cycles = 4;
        } else {
          i.len = 3;
          i.cycles = 6;
          i.block_end = true;
        }
      }
      6 => {
        i.len = 2;
        i.cycles = 2;
      }
      _ => {
        i.cycles = 4;
        i.block_end = true;
      }
    },
  }
  if !i.conditional {
    i.cycles_taken = i.cycles;
  }
  i
}

fn get_r<B: Bus>(cpu: &Cpu, bus: &mut B, idx: u8) -> u8 {
  match idx {
    0 => cpu.b,
    1 => cpu.c,
    2 => cpu.d,
    3 => cpu.e,
    4 => cpu.h,
    5 => cpu.l,
    6 => bus.read(cpu.hl()),
    _ => cpu.a,
  }
}

fn set_r<B: Bus>(cpu: &mut Cpu, bus: &mut B, idx: u8, v: u8) {
  match idx {
    0 => cpu.b = v,
    1 => cpu.c = v,
    2 => cpu.d = v,
    3 => cpu.e = v,
    4 => cpu.h = v,
    5 => cpu.l = v,
    6 => bus.write(cpu.hl(), v),
    _ => cpu.a = v,
  }
}

fn get_rp(cpu: &Cpu, p: u8) -> u16 {
  match p {
    0 => cpu.bc(),
    1 => cpu.de(),
    2 => cpu.hl(),
    _ => cpu.sp,
  }
}

fn set_rp(cpu: &mut Cpu, p: u8, v: u16) {
  match p {
    0 => cpu.set_bc(v),
    1 => cpu.set_de(v),
    2 => cpu.set_hl(v),
    _ => cpu.sp = v,
  }
}

fn cond(cpu: &Cpu, cc: u8) -> bool {
  match cc & 3 {
    0 => !cpu.flag(FZ),
    1 => cpu.flag(FZ),
    2 => !cpu.flag(FC),
    _ => cpu.flag(FC),
  }
}

fn push16<B: Bus>(cpu: &mut Cpu, bus: &mut B, v: u16) {
  cpu.sp = cpu.sp.wrapping_sub(1);
  bus.write(cpu.sp, (v >> 8) as u8);
  cpu.sp = cpu.sp.wrapping_sub(1);
  bus.write(cpu.sp, v as u8);
}

fn pop16<B: Bus>(cpu: &mut Cpu, bus: &mut B) -> u16 {
  let lo = bus.read(cpu.sp) as u16;
  cpu.sp = cpu.sp.wrapping_add(1);
  let hi = bus.read(cpu.sp) as u16;
  cpu.sp = cpu.sp.wrapping_add(1);
  (hi << 8) | lo
}

fn alu(cpu: &mut Cpu, kind: u8, v: u8) {
  let a = cpu.a;
  let cin = if cpu.flag(FC) { 1u16 } else { 0 };
  match kind {
    0 | 1 => {
      let c = if kind == 1 { cin } else { 0 };
      let sum = a as u16 + v as u16 + c;
      let h = (a & 0xf) as u16 + (v & 0xf) as u16 + c > 0xf;
      cpu.a = sum as u8;
      cpu.set_flags(cpu.a == 0, false, h, sum > 0xff);
    }
    2 | 3 | 7 => {
      let c = if kind == 3 { cin } else { 0 };
      let diff = (a as i32) - (v as i32) - (c as i32);
      let h = ((a & 0xf) as i32) - ((v & 0xf) as i32) - (c as i32) < 0;
      let r = diff as u8;
      cpu.set_flags(r == 0, true, h, diff < 0);
      if kind != 7 {
        cpu.a = r;
      }
    }
    4 => {
      cpu.a = a & v;
      cpu.set_flags(cpu.a == 0, false, true, false);
    }
    5 => {
      cpu.a = a ^ v;
      cpu.set_flags(cpu.a == 0, false, false, false);
    }
    _ => {
      cpu.a = a | v;
      cpu.set_flags(cpu.a == 0, false, false, false);
    }
  }
}

fn add_sp_e(cpu: &mut Cpu, e: u8) -> u16 {
  let sp = cpu.sp;
  let h = (sp & 0xf) + (e as u16 & 0xf) > 0xf;
  let c = (sp & 0xff) + (e as u16) > 0xff;
  cpu.set_flags(false, false, h, c);
  sp.wrapping_add(e as i8 as i16 as u16)
}

fn rot(cpu: &mut Cpu, kind: u8, v: u8) -> u8 {
  let cin = cpu.flag(FC);
  let (r, c) = match kind {
    0 => (v.rotate_left(1), v & 0x80 != 0),
    1 => (v.rotate_right(1), v & 1 != 0),
    2 => ((v << 1) | (cin as u8), v & 0x80 != 0),
    3 => ((v >> 1) | ((cin as u8) << 7), v & 1 != 0),
    4 => (v << 1, v & 0x80 != 0),
    5 => ((v >> 1) | (v & 0x80), v & 1 != 0),
    6 => ((v << 4) | (v >> 4), false),
    _ => (v >> 1, v & 1 != 0),
  };
  cpu.set_flags(r == 0, false, false, c);
  r
}

/// Execute one instruction. Fetches go through `bus.read`.
pub fn step<B: Bus>(cpu: &mut Cpu, bus: &mut B) -> Step {
  let pc = cpu.pc;
  let op = bus.read(pc);
  if is_undefined(op) {
    let i = info(op, 0);
    return Step { info: i, taken: false, cycles: 0, effect: Effect::Undefined };
  }
  let b1 = |bus: &mut B| bus.read(pc.wrapping_add(1));
  let cbyte = if op == 0xcb { b1(bus) } else { 0 };
  let i = info(op, cbyte);
  let imm8 = if i.len >= 2 && op != 0xcb { b1(bus) } else { 0 };
  let imm16 = if i.len == 3 { (imm8 as u16) | ((bus.read(pc.wrapping_add(2)) as u16) << 8) } else { 0 };
  let next = pc.wrapping_add(i.len as u16);
  cpu.pc = next;
  let mut taken = false;
  let mut effect = Effect::Normal;
  let x = op >> 6;
  let y = (op >> 3) & 7;
  let z = op & 7;
  let p = y >> 1;
  let q = y & 1;
  match x {
    0 => match z {
      0 => match y {
        0 => {}
        1 => {
          bus.write(imm16, cpu.sp as u8);
          bus.write(imm16.wrapping_add(1), (cpu.sp >> 8) as u8);
        }
        2 => effect = Effect::Stop,
        3 => {
          cpu.pc = next.wrapping_add(imm8 as i8 as i16 as u16);
          taken = true;
        }
        _ => {
          if cond(cpu, y - 4) {
            cpu.pc = next.wrapping_add(imm8 as i8 as i16 as u16);
            taken = true;
          }
        }
      },
      1 => {
        if q == 0 {
          set_rp(cpu, p, imm16);
        } else {
          let hl = cpu.hl();
          let v = get_rp(cpu, p);
          let r = hl as u32 + v as u32;
          let h = (hl & 0xfff) + (v & 0xfff) > 0xfff;
          let zf = cpu.flag(FZ);
          cpu.set_flags(zf, false, h, r > 0xffff);
          cpu.set_hl(r as u16);
        }
      }
      2 => {
        let addr = match p {
          0 => cpu.bc(),
          1 => cpu.de(),
          _ => cpu.hl(),
        };
        if q == 0 {
          bus.write(addr, cpu.a);
        } else {
          cpu.a = bus.read(addr);
        }
        if p == 2 {
          cpu.set_hl(addr.wrapping_add(1));
        } else if p == 3 {
          cpu.set_hl(addr.wrapping_sub(1));
        }
      }
      3 => {
        let v = get_rp(cpu, p);
        set_rp(cpu, p, if q == 0 { v.wrapping_add(1) } else { v.wrapping_sub(1) });
      }
      4 => {
        let v = get_r(cpu, bus, y);
        let r = v.wrapping_add(1);
        let cf = cpu.flag(FC);
        cpu.set_flags(r == 0, false, v & 0xf == 0xf, cf);
        set_r(cpu, bus, y, r);
      }
      5 => {
        let v = get_r(cpu, bus, y);
        let r = v.wrapping_sub(1);
        let cf = cpu.flag(FC);
        cpu.set_flags(r == 0, true, v & 0xf == 0, cf);
        set_r(cpu, bus, y, r);
      }
      6 => set_r(cpu, bus, y, imm8),
      _ => match y {
        0..=3 => {
          let a = cpu.a;
          let r = rot(cpu, y, a);
          cpu.a = r;
          cpu.f &= FC; // Z is always cleared by the accumulator rotates
        }
        4 => {
          // DAA
          let n = cpu.flag(FN);
          let mut c = cpu.flag(FC);
          let h = cpu.flag(FH);
          let mut a = cpu.a;
          if !n {
            let mut adj = 0u8;
            if h || (a & 0x0f) > 9 {
              adj |= 0x06;
            }
            if c || a > 0x99 {
              adj |= 0x60;
              c = true;
            }
            a = a.wrapping_add(adj);
          } else {
            let mut adj = 0u8;
            if h {
              adj |= 0x06;
            }
            if c {
              adj |= 0x60;
            }
            a = a.wrapping_sub(adj);
          }
          cpu.a = a;
          cpu.set_flags(a == 0, n, false, c);
        }
        5 => {
          cpu.a = !cpu.a;
          cpu.f |= FN | FH;
        }
        6 => {
          let zf = cpu.flag(FZ);
          cpu.set_flags(zf, false, false, true);
        }
        _ => {
          let zf = cpu.flag(FZ);
          let cf = cpu.flag(FC);
          cpu.set_flags(zf, false, false, !cf);
        }
      },
    },
    1 => {
      if op == 0x76 {
        effect = Effect::Halt;
      } else {
        let v = get_r(cpu, bus, z);
        set_r(cpu, bus, y, v);
      }
    }
    2 => {
      let v = get_r(cpu, bus, z);
      alu(cpu, y, v);
    }
    _ => match z {
      0 => match y {
        0..=3 => {
          if cond(cpu, y) {
            cpu.pc = pop16(cpu, bus);
            taken = true;
          }
        }
        4 => bus.write(0xff00 | imm8 as u16, cpu.a),
        5 => cpu.sp = add_sp_e(cpu, imm8),
        6 => cpu.a = bus.read(0xff00 | imm8 as u16),
        _ => {
          let r = add_sp_e(cpu, imm8);
          cpu.set_hl(r);
        }
      },
      1 => {
        if q == 0 {
          let v = pop16(cpu, bus);
          match p {
            0 => cpu.set_bc(v),
            1 => cpu.set_de(v),
            2 => cpu.set_hl(v),
            _ => {
              cpu.a = (v >> 8) as u8;
              cpu.f = (v as u8) & 0xf0;
            }
          }
        } else {
          match p {
            0 => {
              cpu.pc = pop16(cpu, bus);
              taken = true;
            }
            1 => {
              cpu.pc = pop16(cpu, bus);
              taken = true;
              effect = Effect::EnableInterruptsNow;
            }
            2 => {
              cpu.pc = cpu.hl();
              taken = true;
            }
            _ => cpu.sp = cpu.hl(),
          }
        }
      }
      2 => match y {
        0..=3 => {
          if cond(cpu, y) {
            cpu.pc = imm16;
            taken = true;
          }
        }
        4 => bus.write(0xff00 | cpu.c as u16, cpu.a),
        5 => bus.write(imm16, cpu.a),
        6 => cpu.a = bus.read(0xff00 | cpu.c as u16),
        _ => cpu.a = bus.read(imm16),
      },
      3 => match y {
        0 => {
          cpu.pc = imm16;
          taken = true;
        }
        1 => {
          let cx = cbyte >> 6;
          let cy = (cbyte >> 3) & 7;
          let cz = cbyte & 7;
          let v = get_r(cpu, bus, cz);
          match cx {
            0 => {
              let r = rot(cpu, cy, v);
              set_r(cpu, bus, cz, r);
            }
            1 => {
              let cf = cpu.flag(FC);
              cpu.set_flags(v & (1 << cy) == 0, false, true, cf);
            }
            2 => set_r(cpu, bus, cz, v & !(1 << cy)),
            _ => set_r(cpu, bus, cz, v | (1 << cy)),
          }
        }
        6 => effect = Effect::DisableInterrupts,
        _ => effect = Effect::EnableInterruptsDelayed,
      },
      4 => {
        if cond(cpu, y) {
          push16(cpu, bus, next);
          cpu.pc = imm16;
          taken = true;
        }
      }
      5 => {
        if q == 0 {
          let v = match p {
            0 => cpu.bc(),
            1 => cpu.de(),
            2 => cpu.hl(),
            _ => cpu.af(),
          };
          push16(cpu, bus, v);
        } else {
          push16(cpu, bus, next);
          cpu.pc = imm16;
          taken = true;
        }
      }
      6 => alu(cpu, y, imm8),
      _ => {
        push16(cpu, bus, next);
        cpu.pc = (y as u16) * 8;
        taken = true;
      }
    },
  }
  let cycles = if i.conditional && taken { i.cycles_taken } else { i.cycles };
  Step { info: i, taken, cycles, effect }
}

/// mnemonic-ish class name for evidence grouping
pub fn class_name(op: u8, cb: u8) -> &'static str {
  if is_undefined(op) {
    return "undefined";
  }
  let x = op >> 6;
  let y = (op >> 3) & 7;
  let z = op & 7;
  let q = y & 1;
  let p = y >> 1;
  match x {
    0 => match z {
      0 => match y {
        0 => "NOP",
        1 => "LD (a16),SP",
        2 => "STOP",
        3 => "JR",
        _ => "JR cc",
      },
      1 => {
        if q == 0 {
          "LD rr,d16"
        } else {
          "ADD HL,rr"
        }
      }
      2 => {
        if q == 0 {
          "LD (rr),A"
        } else {
          "LD A,(rr)"
        }
      }
      3 => {
        if q == 0 {
          "INC rr"
        } else {
          "DEC rr"
        }
      }
      4 => {
        if y == 6 {
          "INC (HL)"
        } else {
          "INC r"
        }
      }
      5 => {
        if y == 6 {
          "DEC (HL)"
        } else {
          "DEC r"
        }
      }
      6 => {
        if y == 6 {
          "LD (HL),d8"
        } else {
          "LD r,d8"
        }
      }
      _ => match y {
        0 => "RLCA",
        1 => "RRCA",
        2 => "RLA",
        3 => "RRA",
        4 => "DAA",
        5 => "CPL",
        6 => "SCF",
        _ => "CCF",
      },
    },
    1 => {
      if op == 0x76 {
        "HALT"
      } else if y == 6 {
        "LD (HL),r"
      } else if z == 6 {
        "LD r,(HL)"
      } else {
        "LD r,r"
      }
    }
    2 => {
      if z == 6 {
        "ALU A,(HL)"
      } else {
        "ALU A,r"
      }
    }
    _ => match z {
      0 => match y {
        0..=3 => "RET cc",
        4 => "LDH (a8),A",
        5 => "ADD SP,e8",
        6 => "LDH A,(a8)",
        _ => "LD HL,SP+e8",
      },
      1 => {
        if q == 0 {
          "POP"
        } else {
          match p {
            0 => "RET",
            1 => "RETI",
            2 => "JP HL",
            _ => "LD SP,HL",
          }
        }
      }
      2 => match y {
        0..=3 => "JP cc",
        4 => "LD (C),A",
        5 => "LD (a16),A",
        6 => "LD A,(C)",
        _ => "LD A,(a16)",
      },
      3 => match y {
        0 => "JP",
        1 => {
          let cx = cb >> 6;
          let cz = cb & 7;
          match (cx, cz == 6) {
            (0, false) => "CB rot r",
            (0, true) => "CB rot (HL)",
            (1, false) => "BIT r",
            (1, true) => "BIT (HL)",
            (2, false) => "RES r",
            (2, true) => "RES (HL)",
            (_, false) => "SET r",
            (_, true) => "SET (HL)",
          }
        }
        6 => "DI",
        _ => "EI",
      },
      4 => "CALL cc",
      5 => {
        if q == 0 {
          "PUSH"
        } else {
          "CALL"
        }
      }
      6 => "ALU A,d8",
      _ => "RST",
    },
  }
}
