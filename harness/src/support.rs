//! Shared helpers: ROM images, core construction through the real loader,
//! state digests, a read-only bus view for the reference CPU.

use crate::cart::Header;
use crate::cpu::Registers;
use crate::emulator::{Core, InterruptState, RunState};
use crate::mem::{memory_read_byte, MemoryAreas};
use crate::refmodel::cpu as refcpu;
use crate::rt;
use std::io::Write;

pub fn rom_banks_for_code(code: u8) -> usize {
  match code {
    0x00 => 2,
    0x01 => 4,
    0x02 => 8,
    0x03 => 16,
    0x04 => 32,
    0x05 => 64,
    0x06 => 128,
    0x07 => 256,
    0x08 => 512,
    0x52 => 72,
    0x53 => 80,
    0x54 => 96,
    _ => 2,
  }
}

pub fn ram_bytes_for_code(code: u8) -> usize {
  match code {
    0x00 => 0,
    0x01 => 2 * 1024,
    0x02 => 8 * 1024,
    0x03 => 32 * 1024,
    0x04 => 128 * 1024,
    0x05 => 64 * 1024,
    _ => 0,
  }
}

pub fn header_checksum(image: &[u8]) -> u8 {
  let mut x: u8 = 0;
  for i in 0x134..=0x14c {
    x = x.wrapping_sub(image[i]).wrapping_sub(1);
  }
  x
}

/// A ROM image of the declared size whose header is valid.
pub fn make_image(cart_type: u8, rom_code: u8, ram_code: u8) -> Vec<u8> {
  let banks = rom_banks_for_code(rom_code);
  let mut image = vec![0u8; banks * 0x4000];
  stamp_header(&mut image, cart_type, rom_code, ram_code);
  image
}

pub fn stamp_header(image: &mut [u8], cart_type: u8, rom_code: u8, ram_code: u8) {
  // entry point: NOP; JP 0x0150
  image[0x100] = 0x00;
  image[0x101] = 0xc3;
  image[0x102] = 0x50;
  image[0x103] = 0x01;
  let title = b"GBVERIF";
  for (i, c) in title.iter().enumerate() {
    image[0x134 + i] = *c;
  }
  image[0x147] = cart_type;
  image[0x148] = rom_code;
  image[0x149] = ram_code;
  image[0x14d] = header_checksum(image);
}

static mut FILE_COUNTER: u64 = 0;

pub fn work_dir() -> String {
  let d = std::env::var("GBV_WORK").unwrap_or_else(|_| "/verif/work".to_string());
  let _ = std::fs::create_dir_all(&d);
  d
}

pub fn write_temp_rom(bytes: &[u8]) -> String {
  let n = unsafe {
    FILE_COUNTER += 1;
    FILE_COUNTER
  };
  let path = format!("{}/rom-{}-{}.gb", work_dir(), std::process::id(), n);
  let mut f = std::fs::File::create(&path).expect("create rom");
  f.write_all(bytes).expect("write rom");
  path
}

/// Load through the repository's own loader sequence (open -> read_header ->
/// checksum -> Core::from_rom_file). The file is removed once mapped.
pub fn core_from_image(bytes: &[u8]) -> Box<Core> {
  let path = write_temp_rom(bytes);
  let core = core_from_file(&path).expect("generated image must load");
  let _ = std::fs::remove_file(&path);
  core
}

pub fn core_from_file(path: &str) -> Result<Box<Core>, String> {
  let mut file = crate::system::open_rom_file(path.to_string())?;
  let header = crate::system::read_header(&mut file)?;
  if !header.valid_checksum() {
    return Err("invalid header checksum".to_string());
  }
  Ok(Box::new(Core::from_rom_file(&mut file, header)))
}

pub fn header_from_bytes(bytes: &[u8; 80]) -> Header {
  unsafe { std::mem::transmute::<[u8; 80], Header>(*bytes) }
}

/// An in-memory MemoryAreas (no file, no mmap): built with the public
/// constructor and then re-equipped through its public fields.
pub fn memory_in_ram(cart_type: u8, rom: Vec<u8>, ram_bytes: usize) -> Box<MemoryAreas> {
  let mut mem = Box::new(MemoryAreas::with_rom(vec![0u8; 1].into_boxed_slice()));
  let mut hb = [0u8; 80];
  hb[0x47] = cart_type;
  let header = header_from_bytes(&hb);
  mem.cart_state = header.create_cart_state();
  mem.rom = rom.into_boxed_slice();
  mem.cart_ram = vec![0u8; ram_bytes].into_boxed_slice();
  mem.work_ram = vec![0u8; 0x2000].into_boxed_slice();
  mem
}

pub fn regs_tuple(r: &Registers) -> [u32; 7] {
  [r.af, r.bc, r.de, r.hl, r.sp, r.ip, r.cycles]
}

pub fn set_regs(r: &mut Registers, t: &[u32; 7]) {
  r.af = t[0];
  r.bc = t[1];
  r.de = t[2];
  r.hl = t[3];
  r.sp = t[4];
  r.ip = t[5];
  r.cycles = t[6];
}

pub fn fmt_regs(t: &[u32; 7]) -> String {
  format!(
    "AF={:04X} BC={:04X} DE={:04X} HL={:04X} SP={:04X} PC={:04X} cyc={}",
    t[0], t[1], t[2], t[3], t[4], t[5], t[6]
  )
}

pub fn ime_code(s: &InterruptState) -> u8 {
  match s {
    InterruptState::Disabled => 0,
    InterruptState::Enabled => 1,
    InterruptState::EnableNext => 2,
  }
}

pub fn ime_from(code: u8) -> InterruptState {
  match code {
    0 => InterruptState::Disabled,
    1 => InterruptState::Enabled,
    _ => InterruptState::EnableNext,
  }
}

pub fn run_code(s: &RunState) -> u8 {
  match s {
    RunState::Run => 0,
    RunState::Halt => 1,
    RunState::Stop => 2,
  }
}

pub fn run_from(code: u8) -> RunState {
  match code {
    0 => RunState::Run,
    1 => RunState::Halt,
    _ => RunState::Stop,
  }
}

/// Everything architecturally visible in a MemoryAreas, as labelled parts so
/// that a mismatch can be named.
pub fn memory_parts(mem: &MemoryAreas) -> Vec<(&'static str, u64)> {
  let mut v = Vec::with_capacity(16);
  v.push(("vram", rt::hash_bytes(&mem.video_ram)));
  v.push(("cart_ram", rt::hash_bytes(&mem.cart_ram)));
  v.push(("wram", rt::hash_bytes(&mem.work_ram)));
  v.push(("oam", rt::hash_bytes(&mem.oam_ram)));
  v.push(("hram", rt::hash_bytes(&mem.high_ram)));
  v.extend(device_parts(mem));
  v
}

/// The non-RAM part of the state: I/O registers, device phases, bank registers.
pub fn device_parts(mem: &MemoryAreas) -> Vec<(&'static str, u64)> {
  let mut v = Vec::with_capacity(12);
  let mut io = [0u8; 0x80];
  for i in 0..0x80u16 {
    io[i as usize] = mem.io.get_byte(0xff00 + i);
  }
  v.push(("io_regs", rt::hash_bytes(&io)));
  v.push(("if_ie", ((mem.io.interrupt_flag.as_u8() as u64) << 8) | mem.io.interrupt_mask as u64));
  v.push(("serial", ((mem.io.serial.get_data() as u64) << 8) | mem.io.serial.get_control() as u64));
  v.push((
    "timer",
    ((mem.io.timer.verif_cycle_count() as u64) << 32)
      | ((mem.io.timer.get_counter() as u64) << 16)
      | ((mem.io.timer.get_modulo() as u64) << 8)
      | mem.io.timer.get_timer_control() as u64,
  ));
  let (mode, dots, line) = mem.io.video.verif_position();
  v.push(("ppu_pos", ((mode as u64) << 40) | ((dots as u64) << 8) | line as u64));
  v.push(("dma", match mem.verif_dma() {
    None => 0,
    Some((s, o)) => 1 | ((s as u64) << 16) | ((o as u64) << 8),
  }));
  v.push(("joypad", mem.io.joypad.verif_pending() as u64 | ((mem.io.joypad.get_value() as u64) << 8)));
  let (a, b, c, d) = mem.cart_state.verif_regs();
  v.push(("mbc", ((a as u64) << 24) | ((b as u64) << 8) | ((c as u64) << 1) | d as u64));
  v.push(("banks", ((mem.vram_bank as u64) << 8) | mem.wram_bank as u64));
  v
}

pub fn memory_digest(mem: &MemoryAreas) -> u64 {
  let parts = memory_parts(mem);
  let words: Vec<u64> = parts.iter().map(|p| p.1).collect();
  rt::hash_words(&words)
}

pub fn frame_digest(mem: &MemoryAreas) -> u64 {
  rt::hash_words(&[
    rt::hash_bytes(mem.io.video.get_visible_buffer()),
    rt::hash_bytes(mem.io.video.get_writing_buffer()),
  ])
}

pub fn diff_parts(a: &MemoryAreas, b: &MemoryAreas) -> String {
  let pa = memory_parts(a);
  let pb = memory_parts(b);
  let mut s = String::new();
  for (x, y) in pa.iter().zip(pb.iter()) {
    if x.1 != y.1 {
      s.push_str(&format!("{}:{:x}!={:x} ", x.0, x.1, y.1));
    }
  }
  s
}

/// Bus view for the reference CPU: reads go to the real memory map (reads are
/// pure), writes are only recorded.
pub struct ReadOnlyBus {
  pub mem: *const MemoryAreas,
  pub writes: Vec<(u16, u8)>,
  pub reads: Vec<u16>,
}

impl ReadOnlyBus {
  pub fn new(mem: *const MemoryAreas) -> Self {
    ReadOnlyBus { mem, writes: Vec::with_capacity(4), reads: Vec::with_capacity(8) }
  }
}

impl refcpu::Bus for ReadOnlyBus {
  fn read(&mut self, addr: u16) -> u8 {
    self.reads.push(addr);
    memory_read_byte(self.mem, addr)
  }
  fn write(&mut self, addr: u16, value: u8) {
    self.writes.push((addr, value));
  }
}

pub fn cpu_from_regs(r: &Registers) -> refcpu::Cpu {
  refcpu::Cpu::from_pairs(r.af as u16, r.bc as u16, r.de as u16, r.hl as u16, r.sp as u16, r.ip as u16)
}

pub fn hexbytes(b: &[u8]) -> String {
  let mut s = String::new();
  for (i, x) in b.iter().enumerate() {
    if i > 0 {
      s.push(' ');
    }
    s.push_str(&format!("{:02X}", x));
  }
  s
}

/// The recorded events with bus addresses reduced to 16 bits and values to 8.
/// Translated code passes `addr: u16` / `value: u8` arguments in registers whose
/// upper bits hold leftovers (e.g. `mov si, imm16`); optimised builds of the hook
/// widen them without re-masking (the ABI lets a callee assume the caller
/// extended them), so the raw event fields can carry garbage above bit 15 / 7.
pub fn masked_events() -> Vec<crate::verif::Event> {
  crate::verif::events()
    .iter()
    .map(|e| {
      if e.kind == crate::verif::EV_WRITE || e.kind == crate::verif::EV_READ {
        crate::verif::Event { kind: e.kind, a: e.a & 0xffff, b: e.b & 0xff }
      } else {
        *e
      }
    })
    .collect()
}

/// Write events recorded by hook H1 since `verif::start`.
pub fn logged_writes() -> Vec<(u16, u8)> {
  crate::verif::events()
    .iter()
    .filter(|e| e.kind == crate::verif::EV_WRITE)
    .map(|e| (e.a as u16, e.b as u8))
    .collect()
}

pub fn region_name(addr: u16) -> &'static str {
  match addr {
    0x0000..=0x3fff => "rom0",
    0x4000..=0x7fff => "romN",
    0x8000..=0x9fff => "vram",
    0xa000..=0xbfff => "cartram",
    0xc000..=0xcfff => "wram0",
    0xd000..=0xdfff => "wramN",
    0xe000..=0xfdff => "echo",
    0xfe00..=0xfe9f => "oam",
    0xfea0..=0xfeff => "unused",
    0xff00..=0xff7f => "io",
    0xff80..=0xfffe => "hram",
    0xffff => "ie",
  }
}

pub struct BinaryRun {
  pub stdout: Vec<u8>,
  pub exit_code: Option<i32>,
  pub signal: Option<i32>,
  /// neither `done` became true nor did the process exit within the (generous) bound
  pub timed_out: bool,
}

/// Run a binary on a ROM file with stdout captured in a file. The run ends
/// when the process exits by itself, or when `done(stdout so far)` holds (plus
/// a short grace period to catch trailing output), or - inconclusive - after
/// `timeout_s` seconds of wall clock. The process is then stopped.
pub fn run_binary_until<F: Fn(&[u8]) -> bool>(bin: &str, rom_path: &str, done: F, timeout_s: u64) -> BinaryRun {
  // a machine that is busy with something else must not turn into an
  // "inconclusive": one more attempt with four times the bound
  let r = run_binary_once(bin, rom_path, &done, timeout_s);
  if r.timed_out {
    return run_binary_once(bin, rom_path, &done, timeout_s * 4);
  }
  r
}

fn run_binary_once<F: Fn(&[u8]) -> bool>(bin: &str, rom_path: &str, done: &F, timeout_s: u64) -> BinaryRun {
  use std::io::Read;
  use std::os::unix::process::ExitStatusExt;
  use std::process::{Command, Stdio};
  let outpath = format!("{}.stdout", rom_path);
  let outf = std::fs::File::create(&outpath).expect("create stdout capture");
  let mut run = BinaryRun { stdout: Vec::new(), exit_code: None, signal: None, timed_out: false };
  let mut child = match Command::new(bin).arg(rom_path).env("RUST_BACKTRACE", "0").stdout(Stdio::from(outf)).stderr(Stdio::null()).spawn() {
    Ok(c) => c,
    Err(_) => {
      run.timed_out = true;
      return run;
    }
  };
  let read_all = |p: &str| -> Vec<u8> {
    let mut d = Vec::new();
    if let Ok(mut f) = std::fs::File::open(p) {
      let _ = f.read_to_end(&mut d);
    }
    d
  };
  let start = std::time::Instant::now();
  let mut exited = false;
  loop {
    if let Ok(Some(s)) = child.try_wait() {
      run.exit_code = s.code();
      run.signal = s.signal();
      exited = true;
      break;
    }
    let cur = read_all(&outpath);
    if done(&cur) {
      // grace period: anything the process still wants to print
      std::thread::sleep(std::time::Duration::from_millis(40));
      if let Ok(Some(s)) = child.try_wait() {
        run.exit_code = s.code();
        run.signal = s.signal();
        exited = true;
      }
      break;
    }
    if start.elapsed().as_secs() >= timeout_s {
      run.timed_out = true;
      break;
    }
    std::thread::sleep(std::time::Duration::from_millis(4));
  }
  if !exited {
    let _ = child.kill();
    let _ = child.wait();
  }
  run.stdout = read_all(&outpath);
  let _ = std::fs::remove_file(&outpath);
  run
}
