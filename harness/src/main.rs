//! gbverif: runtime monitors for andrewimm/gb-dynarec.
//! The repository's sources are compiled into this binary (see build.rs).
#![allow(dead_code)]
#![allow(static_mut_refs)]

include!(concat!(env!("OUT_DIR"), "/mods.rs"));

pub mod rt;
pub mod gen;
pub mod refmodel;
pub mod support;
pub mod mon;

use rt::{Ctx, Shared};
use std::collections::HashMap;
use std::io::Write;

pub struct Monitor {
  pub name: &'static str,
  pub run: fn(&mut Ctx),
  /// after a crash, fork again and continue after the case in flight
  pub resumable: bool,
  /// turn a crash (intent words, intent text, status text, stderr tail) into (signature, detail);
  /// None = the crash is a harness failure (inconclusive)
  pub on_crash: fn(&[u64], &str, &str, &str) -> Option<(String, String)>,
}

pub fn crash_is_harness_failure(_i: &[u64], _t: &str, _s: &str, _e: &str) -> Option<(String, String)> {
  None
}

fn parse_args() -> (String, HashMap<String, String>) {
  let mut it = std::env::args().skip(1);
  let name = it.next().unwrap_or_else(|| "list".to_string());
  let mut map = HashMap::new();
  let mut key: Option<String> = None;
  for a in it {
    if let Some(k) = a.strip_prefix("--") {
      if let Some(prev) = key.take() {
        map.insert(prev, "1".to_string());
      }
      key = Some(k.to_string());
    } else if let Some(k) = key.take() {
      map.insert(k, a);
    }
  }
  if let Some(prev) = key.take() {
    map.insert(prev, "1".to_string());
  }
  (name, map)
}

fn read_tail(path: &str, n: usize) -> String {
  match std::fs::read(path) {
    Ok(b) => {
      let start = b.len().saturating_sub(n);
      String::from_utf8_lossy(&b[start..]).to_string()
    }
    Err(_) => String::new(),
  }
}

fn main() {
  let (name, args) = parse_args();
  let monitors = mon::registry();
  if name == "list" {
    for m in monitors.iter() {
      println!("{}", m.name);
    }
    return;
  }
  let monitor = match monitors.iter().find(|m| m.name == name) {
    Some(m) => m,
    None => {
      eprintln!("unknown monitor {}", name);
      std::process::exit(3);
    }
  };
  let shared: *mut Shared = rt::alloc_shared();
  unsafe {
    rt::SHARED_PTR = shared;
  }
  rt::install_panic_hook();
  let out_path = args.get("out").cloned().unwrap_or_else(|| "/dev/null".to_string());
  let timeout_s: u64 = args.get("timeout").and_then(|s| s.parse().ok()).unwrap_or(3000);
  // no fork under Miri: the monitor runs in this process
  let inline = args.contains_key("inline") || cfg!(miri);
  let keep_stdout = args.contains_key("keep-stdout");
  let stderr_path = format!("{}.stderr", out_path);
  let started = std::time::Instant::now();

  let mut start_case: u64 = args.get("start").and_then(|s| s.parse().ok()).unwrap_or(0);
  let mut skips: Vec<[u64; rt::INTENT_WORDS]> = Vec::new();
  let mut resume: Option<(u64, u64)> = None;
  let mut crashes: Vec<String> = Vec::new();
  let mut harness_failures: Vec<String> = Vec::new();
  let mut forks = 0u64;
  let max_forks = args.get("max-forks").and_then(|s| s.parse().ok()).unwrap_or(3000u64);

  if inline {
    // debugging aid: no fork, no redirection
    let mut ctx = Ctx::new(shared, args.clone());
    ctx.start_case = start_case;
    (monitor.run)(&mut ctx);
    ctx.finish();
  } else {
    loop {
      forks += 1;
      unsafe {
        (*shared).intent_valid = 0;
        (*shared).intent_text_len = 0;
        (*shared).done = 0;
      }
      let _ = std::io::stdout().flush();
      let pid = unsafe { libc::fork() };
      if pid < 0 {
        harness_failures.push("fork failed".to_string());
        break;
      }
      if pid == 0 {
        // child
        unsafe {
          let errf = std::ffi::CString::new(stderr_path.clone()).unwrap();
          let fd = libc::open(errf.as_ptr(), libc::O_WRONLY | libc::O_CREAT | libc::O_TRUNC, 0o644);
          if fd >= 0 {
            libc::dup2(fd, 2);
            libc::close(fd);
          }
          if !keep_stdout {
            let devnull = std::ffi::CString::new("/dev/null").unwrap();
            let fd = libc::open(devnull.as_ptr(), libc::O_WRONLY);
            if fd >= 0 {
              libc::dup2(fd, 1);
              libc::close(fd);
            }
          }
        }
        let mut ctx = Ctx::new(shared, args.clone());
        ctx.start_case = start_case;
        ctx.resume = resume;
        ctx.skips = skips.clone();
        (monitor.run)(&mut ctx);
        ctx.finish();
        unsafe { libc::_exit(0) };
      }
      // parent: wait with watchdog
      let mut status: i32 = 0;
      let mut timed_out = false;
      loop {
        let r = unsafe { libc::waitpid(pid, &mut status, libc::WNOHANG) };
        if r == pid {
          break;
        }
        if r < 0 {
          break;
        }
        if started.elapsed().as_secs() > timeout_s {
          unsafe {
            libc::kill(pid, libc::SIGKILL);
            libc::waitpid(pid, &mut status, 0);
          }
          timed_out = true;
          break;
        }
        std::thread::sleep(std::time::Duration::from_millis(5));
      }
      if timed_out {
        harness_failures.push(format!("watchdog: worker exceeded {} s wall clock (inconclusive, not a verdict)", timeout_s));
        break;
      }
      let exited_ok = libc::WIFEXITED(status) && libc::WEXITSTATUS(status) == 0;
      let done = unsafe { (*shared).done } == 1;
      if exited_ok && done {
        break;
      }
      // a memory checker wrapped around the worker (valgrind --error-exitcode=N)
      // reports through the exit status of an otherwise complete run
      if done && libc::WIFEXITED(status) {
        if let Some(code) = args.get("sanitizer-exit").and_then(|s| s.parse::<i32>().ok()) {
          if libc::WEXITSTATUS(status) == code {
            let err_tail = read_tail(&stderr_path, 1500);
            let sig = format!("{}:host:memory-checker-reported-errors", monitor.name.to_uppercase());
            rt::shared_add(shared, &format!("~sig:{}", sig), 1);
            crashes.push(format!(
              "{{\"t\":\"violation\",\"signature\":\"{}\",\"detail\":\"{}\"}}",
              rt::json_escape(&sig),
              rt::json_escape(&format!("the memory checker reported errors during this worker's run: {}", err_tail.trim()))
            ));
            break;
          }
        }
      }
      // the child died
      let status_text = if libc::WIFSIGNALED(status) {
        format!("signal {}", libc::WTERMSIG(status))
      } else {
        format!("exit {}", libc::WEXITSTATUS(status))
      };
      let sh = unsafe { &*shared };
      let intent: Vec<u64> = sh.intent.to_vec();
      let text = String::from_utf8_lossy(&sh.intent_text[..sh.intent_text_len as usize]).to_string();
      let err_tail = read_tail(&stderr_path, 600);
      if sh.intent_valid == 0 {
        harness_failures.push(format!("worker died ({}) with no case in flight: {}", status_text, err_tail));
        break;
      }
      match (monitor.on_crash)(&intent, &text, &status_text, &err_tail) {
        Some((sig, detail)) => {
          rt::shared_add(shared, &format!("~sig:{}", sig), 1);
          if crashes.len() < 400 {
            crashes.push(format!(
              "{{\"t\":\"violation\",\"signature\":\"{}\",\"detail\":\"{}\"}}",
              rt::json_escape(&sig),
              rt::json_escape(&format!("{} [{}] intent={:?} {} stderr: {}", detail, status_text, &intent[..6], text, err_tail.trim()))
            ));
          }
          rt::shared_add(shared, "crashes_attributed", 1);
        }
        None => {
          harness_failures.push(format!(
            "worker died ({}) in case {:?} {} : {}",
            status_text,
            &intent[..6],
            text,
            err_tail
          ));
          break;
        }
      }
      if !monitor.resumable {
        break;
      }
      if forks >= max_forks {
        harness_failures.push(format!("more than {} worker restarts", max_forks));
        break;
      }
      start_case = intent[0] + 1;
      resume = Some((intent[0], intent[1]));
      let mut s = [0u64; rt::INTENT_WORDS];
      s.copy_from_slice(&intent[..rt::INTENT_WORDS]);
      skips.push(s);
    }
  }

  // write the worker report
  let sh = unsafe { &*shared };
  let mut out = String::new();
  out.push_str("{\"monitor\":\"");
  out.push_str(monitor.name);
  out.push_str("\",\"counters\":{");
  let counters = rt::shared_counters(shared);
  let mut first = true;
  for (k, v) in counters.iter() {
    if !first {
      out.push(',');
    }
    first = false;
    out.push_str(&format!("\"{}\":{}", rt::json_escape(k), v));
  }
  out.push_str("},\"records\":[");
  let rec = String::from_utf8_lossy(&sh.records[..sh.record_len as usize]).to_string();
  let mut first = true;
  for line in rec.lines().chain(crashes.iter().map(|s| s.as_str())) {
    if line.is_empty() {
      continue;
    }
    if !first {
      out.push(',');
    }
    first = false;
    out.push_str(line);
  }
  out.push_str("],\"harness_failures\":[");
  let mut first = true;
  if sh.record_overflow != 0 {
    harness_failures.push("record/counter area overflowed".to_string());
  }
  for h in harness_failures.iter() {
    if !first {
      out.push(',');
    }
    first = false;
    out.push_str(&format!("\"{}\"", rt::json_escape(h)));
  }
  out.push_str(&format!("],\"forks\":{},\"wall_s\":{:.3}}}\n", forks, started.elapsed().as_secs_f64()));
  if out_path == "/dev/null" || out_path == "-" {
    print!("{}", out);
  } else {
    std::fs::write(&out_path, out).expect("write report");
  }
  let _ = std::fs::remove_file(&stderr_path);
}
