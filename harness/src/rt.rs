//! Worker runtime: shared-memory report area, crash attribution by fork,
//! counters, violation records, samples.
//!
//! The monitor runs in a forked child. Everything it wants to survive its own
//! death lives in an anonymous MAP_SHARED mapping: the "intent" (which case is
//! in flight, written with plain stores), named counters, and an append-only
//! record buffer (violations, samples, notes). When the child dies the parent
//! attributes the death to the intent and, for monitors that declare
//! themselves resumable, forks again to continue after that case.

use std::collections::HashMap;
use std::fmt::Write as _;

pub const NSLOTS: usize = 8192;
pub const NAME_LEN: usize = 88;
#[cfg(not(miri))]
pub const RECORD_BYTES: usize = 48 << 20;
#[cfg(miri)]
pub const RECORD_BYTES: usize = 256 << 10;
pub const INTENT_WORDS: usize = 12;

#[repr(C)]
pub struct Slot {
  pub name: [u8; NAME_LEN],
  pub value: u64,
}

#[repr(C)]
pub struct Shared {
  pub intent_valid: u64,
  pub intent: [u64; INTENT_WORDS],
  pub intent_text_len: u64,
  pub intent_text: [u8; 512],
  pub record_len: u64,
  pub record_overflow: u64,
  pub done: u64,
  pub slots: [Slot; NSLOTS],
  pub records: [u8; RECORD_BYTES],
}

#[derive(Copy, Clone, Debug, Eq, PartialEq)]
pub enum Tier {
  Quick,
  Thorough,
}

pub struct Ctx {
  pub shared: *mut Shared,
  pub tier: Tier,
  pub seed: u64,
  pub shard: u64,
  pub nshards: u64,
  /// first case index to execute (cases with a smaller index were already
  /// executed by a previous incarnation of this worker)
  pub start_case: u64,
  /// (case, sub-case) that was in flight when the previous incarnation died
  pub resume: Option<(u64, u64)>,
  /// regions to skip, set by the parent after crashes (monitor specific)
  pub skips: Vec<[u64; INTENT_WORDS]>,
  pub args: HashMap<String, String>,
  pub out_path: String,
  sig_counts: HashMap<String, u64>,
  pub distinct: std::collections::HashSet<u64>,
  pub max_witness_per_sig: u64,
  pub max_signatures: usize,
  pub sample_budget: u64,
}

pub static mut SHARED_PTR: *mut Shared = std::ptr::null_mut();
/// set around calls whose panic is an expected, observed outcome
pub static mut EXPECT_PANIC: bool = false;

/// Panic hook: the location of the last panic is stored in the shared intent
/// text (so that it survives an abort); it is printed unless the panic is an
/// expected outcome of the case under observation.
pub fn install_panic_hook() {
  std::panic::set_hook(Box::new(|info| {
    let loc = match info.location() {
      Some(l) => {
        let f = l.file();
        let f = f.rsplit("/src/").next().unwrap_or(f);
        format!("{}:{}", f, l.line())
      }
      None => "?".to_string(),
    };
    let msg = if let Some(s) = info.payload().downcast_ref::<String>() {
      s.clone()
    } else if let Some(s) = info.payload().downcast_ref::<&str>() {
      s.to_string()
    } else {
      String::new()
    };
    unsafe {
      // keep the first panic since the intent was written: a second one is
      // only the runtime's "panic in a function that cannot unwind"
      if !SHARED_PTR.is_null() && (*SHARED_PTR).intent_text_len == 0 {
        let sh = &mut *SHARED_PTR;
        let b = loc.as_bytes();
        let n = b.len().min(511);
        sh.intent_text[..n].copy_from_slice(&b[..n]);
        sh.intent_text_len = n as u64;
      }
      if !EXPECT_PANIC {
        eprintln!("panicked at {}: {}", loc, msg);
      }
    }
  }));
}

/// Under Miri there is no fork and no shared mapping: a plain zeroed heap block.
#[cfg(miri)]
pub fn alloc_shared() -> *mut Shared {
  unsafe {
    let layout = std::alloc::Layout::new::<Shared>();
    let p = std::alloc::alloc_zeroed(layout);
    p as *mut Shared
  }
}

#[cfg(not(miri))]
pub fn alloc_shared() -> *mut Shared {
  unsafe {
    let size = std::mem::size_of::<Shared>();
    let p = libc::mmap(
      std::ptr::null_mut(),
      size,
      libc::PROT_READ | libc::PROT_WRITE,
      libc::MAP_SHARED | libc::MAP_ANONYMOUS,
      -1,
      0,
    );
    if p == libc::MAP_FAILED {
      panic!("mmap shared failed");
    }
    p as *mut Shared
  }
}

fn hash_name(name: &str) -> usize {
  let mut h: u64 = 0xcbf29ce484222325;
  for b in name.as_bytes() {
    h ^= *b as u64;
    h = h.wrapping_mul(0x100000001b3);
  }
  (h as usize) % NSLOTS
}

pub fn shared_add(shared: *mut Shared, name: &str, n: u64) {
  let sh = unsafe { &mut *shared };
  let bytes = name.as_bytes();
  let len = bytes.len().min(NAME_LEN - 1);
  let mut i = hash_name(name);
  for _ in 0..NSLOTS {
    let slot = &mut sh.slots[i];
    if slot.name[0] == 0 {
      slot.name[..len].copy_from_slice(&bytes[..len]);
      slot.value = n;
      return;
    }
    let slen = slot.name.iter().position(|c| *c == 0).unwrap_or(NAME_LEN);
    if slen == len && &slot.name[..len] == &bytes[..len] {
      slot.value = slot.value.wrapping_add(n);
      return;
    }
    i = (i + 1) % NSLOTS;
  }
  sh.record_overflow = 1;
}

pub fn shared_counters(shared: *mut Shared) -> Vec<(String, u64)> {
  let sh = unsafe { &*shared };
  let mut v = Vec::new();
  for slot in sh.slots.iter() {
    if slot.name[0] != 0 {
      let slen = slot.name.iter().position(|c| *c == 0).unwrap_or(NAME_LEN);
      v.push((String::from_utf8_lossy(&slot.name[..slen]).to_string(), slot.value));
    }
  }
  v.sort();
  v
}

pub fn shared_append(shared: *mut Shared, line: &str) {
  let sh = unsafe { &mut *shared };
  let len = sh.record_len as usize;
  let bytes = line.as_bytes();
  if len + bytes.len() + 1 > RECORD_BYTES {
    sh.record_overflow = 1;
    return;
  }
  sh.records[len..len + bytes.len()].copy_from_slice(bytes);
  sh.records[len + bytes.len()] = b'\n';
  sh.record_len = (len + bytes.len() + 1) as u64;
}

pub fn json_escape(s: &str) -> String {
  let mut o = String::with_capacity(s.len() + 2);
  for c in s.chars() {
    match c {
      '"' => o.push_str("\\\""),
      '\\' => o.push_str("\\\\"),
      '\n' => o.push_str("\\n"),
      '\r' => o.push_str("\\r"),
      '\t' => o.push_str("\\t"),
      c if (c as u32) < 0x20 => {
        let _ = write!(o, "\\u{:04x}", c as u32);
      }
      c => o.push(c),
    }
  }
  o
}

impl Ctx {
  pub fn new(shared: *mut Shared, args: HashMap<String, String>) -> Self {
    let tier = match args.get("tier").map(|s| s.as_str()) {
      Some("thorough") => Tier::Thorough,
      _ => Tier::Quick,
    };
    let num = |k: &str, d: u64| args.get(k).and_then(|s| s.parse::<u64>().ok()).unwrap_or(d);
    Ctx {
      shared,
      tier,
      seed: num("seed", 1),
      shard: num("shard", 0),
      nshards: num("nshards", 1).max(1),
      start_case: 0,
      resume: None,
      skips: Vec::new(),
      out_path: args.get("out").cloned().unwrap_or_else(|| "/dev/null".to_string()),
      args,
      sig_counts: HashMap::new(),
      distinct: std::collections::HashSet::new(),
      max_witness_per_sig: 2,
      max_signatures: 400,
      sample_budget: 6,
    }
  }

  pub fn arg_u64(&self, k: &str, d: u64) -> u64 {
    self.args.get(k).and_then(|s| s.parse::<u64>().ok()).unwrap_or(d)
  }

  pub fn arg_str(&self, k: &str) -> Option<&str> {
    self.args.get(k).map(|s| s.as_str())
  }

  pub fn thorough(&self) -> bool {
    self.tier == Tier::Thorough
  }

  /// is case `idx` mine (sharding by index) and not yet executed?
  #[inline]
  pub fn mine(&self, idx: u64) -> bool {
    idx % self.nshards == self.shard && idx >= self.start_case
  }

  /// like `mine`, for monitors that resume inside a case: the case that was in
  /// flight is entered again and `first_sub` tells where to continue
  #[inline]
  pub fn mine_sub(&self, idx: u64) -> bool {
    idx % self.nshards == self.shard
      && match self.resume {
        Some((c, _)) => idx >= c,
        None => true,
      }
  }

  #[inline]
  pub fn first_sub(&self, idx: u64) -> u64 {
    match self.resume {
      Some((c, s)) if c == idx => s + 1,
      _ => 0,
    }
  }

  #[inline]
  pub fn intent2(&self, case: u64, sub: u64) {
    let sh = unsafe { &mut *self.shared };
    sh.intent[0] = case;
    sh.intent[1] = sub;
    sh.intent_text_len = 0;
    sh.intent_valid = 1;
  }

  #[inline]
  pub fn intent(&self, words: &[u64]) {
    let sh = unsafe { &mut *self.shared };
    let n = words.len().min(INTENT_WORDS);
    sh.intent[..n].copy_from_slice(&words[..n]);
    for w in sh.intent[n..].iter_mut() {
      *w = 0;
    }
    sh.intent_text_len = 0;
    sh.intent_valid = 1;
  }

  pub fn intent_text(&self, text: &str) {
    let sh = unsafe { &mut *self.shared };
    let b = text.as_bytes();
    let n = b.len().min(511);
    sh.intent_text[..n].copy_from_slice(&b[..n]);
    sh.intent_text_len = n as u64;
  }

  pub fn intent_clear(&self) {
    let sh = unsafe { &mut *self.shared };
    sh.intent_valid = 0;
    sh.intent_text_len = 0;
  }

  pub fn count(&self, name: &str, n: u64) {
    shared_add(self.shared, name, n);
  }

  /// Record a violation. `signature` identifies the failing behaviour class
  /// (it is what known_findings.json is keyed on); `detail` is the witness.
  /// Returns false when the monitor should stop (too many distinct signatures).
  pub fn violation(&mut self, signature: &str, detail: &str) -> bool {
    let n = {
      let e = self.sig_counts.entry(signature.to_string()).or_insert(0);
      *e += 1;
      *e
    };
    if n == 1 {
      self.count(&format!("~sig:{}", signature), 1);
    } else {
      self.count(&format!("~sig:{}", signature), 1);
    }
    if n <= self.max_witness_per_sig {
      shared_append(
        self.shared,
        &format!(
          "{{\"t\":\"violation\",\"signature\":\"{}\",\"detail\":\"{}\"}}",
          json_escape(signature),
          json_escape(detail)
        ),
      );
    }
    self.sig_counts.len() < self.max_signatures
  }

  pub fn too_many(&self) -> bool {
    self.sig_counts.len() >= self.max_signatures
  }

  /// Write one explored case to the evidence (a handful per worker).
  pub fn sample(&mut self, text: &str) {
    if self.sample_budget == 0 {
      return;
    }
    self.sample_budget -= 1;
    shared_append(self.shared, &format!("{{\"t\":\"sample\",\"text\":\"{}\"}}", json_escape(text)));
  }

  pub fn want_sample(&self) -> bool {
    self.sample_budget > 0
  }

  pub fn note(&self, text: &str) {
    shared_append(self.shared, &format!("{{\"t\":\"note\",\"text\":\"{}\"}}", json_escape(text)));
  }

  /// The monitor could not decide (floor not reached, hook not hit ...)
  pub fn inconclusive(&self, text: &str) {
    shared_append(self.shared, &format!("{{\"t\":\"inconclusive\",\"text\":\"{}\"}}", json_escape(text)));
  }

  #[inline]
  pub fn distinct_key(&mut self, key: u64) {
    if self.distinct.len() < 400_000 {
      self.distinct.insert(key);
    }
  }

  pub fn finish(&mut self) {
    // distinct keys go to a side file, the driver unions them over shards
    let mut keys: Vec<u64> = self.distinct.iter().cloned().collect();
    keys.sort_unstable();
    let mut bytes = Vec::with_capacity(keys.len() * 8);
    for k in keys {
      bytes.extend_from_slice(&k.to_le_bytes());
    }
    let p = format!("{}.distinct.{}", self.out_path, std::process::id());
    let _ = std::fs::write(p, bytes);
    unsafe {
      (*self.shared).done = 1;
    }
  }
}

pub fn mix(mut x: u64) -> u64 {
  x = x.wrapping_add(0x9e3779b97f4a7c15);
  x = (x ^ (x >> 30)).wrapping_mul(0xbf58476d1ce4e5b9);
  x = (x ^ (x >> 27)).wrapping_mul(0x94d049bb133111eb);
  x ^ (x >> 31)
}

pub fn hash_words(words: &[u64]) -> u64 {
  let mut h = 0x1234_5678_9abc_def0u64;
  for w in words {
    h = mix(h ^ *w);
  }
  h
}

pub fn hash_bytes(bytes: &[u8]) -> u64 {
  // FNV-1a 64 over 8-byte chunks then mixed; good enough for digests
  let mut h: u64 = 0xcbf29ce484222325;
  let mut chunks = bytes.chunks_exact(8);
  for c in &mut chunks {
    let mut a = [0u8; 8];
    a.copy_from_slice(c);
    h = (h ^ u64::from_le_bytes(a)).wrapping_mul(0x100000001b3);
    h ^= h >> 29;
  }
  for b in chunks.remainder() {
    h = (h ^ *b as u64).wrapping_mul(0x100000001b3);
  }
  mix(h)
}

#[derive(Clone)]
pub struct Rng(pub u64);

impl Rng {
  pub fn new(seed: u64) -> Self {
    Rng(mix(seed ^ 0xa076_1d64_78bd_642f))
  }
  pub fn from(parts: &[u64]) -> Self {
    Rng(hash_words(parts))
  }
  #[inline]
  pub fn next(&mut self) -> u64 {
    self.0 = self.0.wrapping_add(0x9e3779b97f4a7c15);
    let mut z = self.0;
    z = (z ^ (z >> 30)).wrapping_mul(0xbf58476d1ce4e5b9);
    z = (z ^ (z >> 27)).wrapping_mul(0x94d049bb133111eb);
    z ^ (z >> 31)
  }
  #[inline]
  pub fn below(&mut self, n: u64) -> u64 {
    if n == 0 {
      0
    } else {
      self.next() % n
    }
  }
  #[inline]
  pub fn range(&mut self, lo: u64, hi_incl: u64) -> u64 {
    lo + self.below(hi_incl - lo + 1)
  }
  #[inline]
  pub fn u8(&mut self) -> u8 {
    self.next() as u8
  }
  #[inline]
  pub fn u16(&mut self) -> u16 {
    self.next() as u16
  }
  #[inline]
  pub fn chance(&mut self, num: u64, den: u64) -> bool {
    self.below(den) < num
  }
  pub fn pick<'a, T>(&mut self, xs: &'a [T]) -> &'a T {
    &xs[self.below(xs.len() as u64) as usize]
  }
  /// byte values biased towards boundaries
  pub fn edgy_u8(&mut self) -> u8 {
    const E: [u8; 16] = [0x00, 0x01, 0x0f, 0x10, 0x7f, 0x80, 0xfe, 0xff, 0x09, 0x0a, 0x99, 0x9a, 0xf0, 0x0e, 0x66, 0x60];
    if self.chance(1, 2) {
      E[self.below(16) as usize]
    } else {
      self.u8()
    }
  }
}
