//! A guest program whose translated footprint exceeds the recompiler's fixed
//! code cache: 127 banks x 64 distinct routines of 200-239 instructions, all
//! called once by a small table-free driver loop (MBC3, 128 banks: one register
//! write selects a bank). About 5 KiB of host code per routine: the 8 MiB cache
//! is used up after roughly 1200 routines (~5000 block steps).

use super::program::Asm;
use crate::support;

/// Blocks that take as long as a block can: bank 1 of a ROM-only image is 16383 x PUSH BC
/// (4 machine cycles per byte, the most any instruction costs per byte) closed by RST 00 at
/// 0x7FFF; the code at 0x0000 resets SP and enters the bank one byte later every time, so the
/// blocks cost 65536, 65532, 65528 ... machine cycles (262144 clocks: more than three frames,
/// exactly one revolution of the 16-bit divider, one more than a 16-bit cycle counter holds).
/// The timer runs at its fastest rate and the display is on.
pub fn long_duration_image() -> (Vec<u8>, String) {
  let mut image = support::make_image(0x00, 0x00, 0x00);
  for i in 0..image.len() {
    image[i] = [0x76u8, 0x18, 0xfd, 0x00][i & 3];
  }
  for v in [0x40usize, 0x48, 0x50, 0x58, 0x60].iter() {
    image[*v] = 0xd9; // RETI
  }
  for i in 0x4000..0x7fffusize {
    image[i] = 0xc5; // PUSH BC
  }
  image[0x7fff] = 0xc7; // RST 00
  image[0..5].copy_from_slice(&[0x31, 0xf0, 0xdf, 0x2c, 0xe9]); // LD SP,0xDFF0; INC L; JP (HL)
  let mut a = Asm::new(0x0150);
  a.b(&[0xf3, 0x01, 0x34, 0x12]); // DI; LD BC,0x1234
  a.ld_a(0x05);
  a.ldh_to(0x07); // TAC: enabled, 16 clocks
  a.ld_a(0x91);
  a.ldh_to(0x40); // display on
  a.ld_hl(0x40ff);
  a.jp(0x0000);
  image[0x0150..0x0150 + a.bytes.len()].copy_from_slice(&a.bytes);
  support::stamp_header(&mut image, 0x00, 0x00, 0x00);
  (image, "long duration: blocks of 16383 x PUSH BC + RST 00, entered one byte later each time (65536, 65532 ... machine cycles)".to_string())
}

/// A loop that is one single block of exactly one frame period (17556 machine cycles:
/// 8776 x LD A,(HL) + JP back), entered after `lead` NOPs: whenever the emulator looks at
/// the LCD between two blocks it finds it at the same place of the frame.
pub fn frame_synchronous_image(lead: usize) -> (Vec<u8>, String) {
  let mut image = support::make_image(0x00, 0x00, 0x00);
  for i in 0..image.len() {
    image[i] = [0x76u8, 0x18, 0xfd, 0x00][i & 3];
  }
  for v in [0x40usize, 0x48, 0x50, 0x58, 0x60].iter() {
    image[*v] = 0xd9; // RETI
  }
  for i in 0x4000..0x4000 + 8776usize {
    image[i] = 0x7e; // LD A,(HL)
  }
  image[0x4000 + 8776..0x4000 + 8779].copy_from_slice(&[0xc3, 0x00, 0x40]); // JP 0x4000
  let mut a = Asm::new(0x0150);
  a.b(&[0xf3]); // DI
  a.ld_a(0x91);
  a.ldh_to(0x40); // display on
  a.ld_hl(0xc000);
  for _ in 0..lead {
    a.b(&[0x00]);
  }
  a.jp(0x4000);
  image[0x0150..0x0150 + a.bytes.len()].copy_from_slice(&a.bytes);
  support::stamp_header(&mut image, 0x00, 0x00, 0x00);
  (image, format!("frame synchronous: a one-block loop of exactly 17556 machine cycles, entered after {} NOPs", lead))
}

pub fn cache_pressure_image() -> (Vec<u8>, String) {
  let mut image = support::make_image(0x13, 0x06, 0x03);
  for i in 0..image.len() {
    image[i] = [0x76u8, 0x18, 0xfd, 0x00][i & 3];
  }
  for bank in 1..128usize {
    for k in 0..64usize {
      let mut a = Asm::new(0x4000 + (k as u16) * 0x100);
      a.ld_a((bank ^ k) as u8);
      for _ in 0..(200 + (bank + k) % 40) {
        a.b(&[0x3c]); // INC A
      }
      a.b(&[0x81, 0x4f, 0xc9]); // ADD A,C; LD C,A; RET
      let off = bank * 0x4000 + k * 0x100;
      image[off..off + a.bytes.len()].copy_from_slice(&a.bytes);
    }
  }
  for v in [0x40usize, 0x48, 0x50, 0x58, 0x60].iter() {
    image[*v] = 0xd9; // RETI
  }
  // the long slide in bank 0: INC E from 0x1000 to 0x3EFF, RET at 0x3F00
  for i in 0x1000..0x3f00usize {
    image[i] = 0x1c;
  }
  image[0x3f00] = 0xc9;
  let mut a = Asm::new(0x0150);
  a.b(&[0xf3, 0x31, 0xfe, 0xff, 0x0e, 0x00]); // DI; LD SP,FFFE; LD C,0
  a.b(&[0x06, 0x01]); // LD B,1
  let bank_loop = a.here();
  a.ld_hl(0x4000);
  let call_loop = a.here();
  // the routine at HL in bank B (new code: a translation, sooner or later the
  // one during which the cache starts over), then the routine at the same
  // address in bank 1 (translated long ago: whatever the cache holds for this
  // address now must be bank 1's code)
  for sel in 0..2 {
    if sel == 0 {
      a.b(&[0x78]); // LD A,B
    } else {
      a.ld_a(0x01);
    }
    a.ld_a_to(0x2100);
    let ret_at = a.here() + 5;
    a.b(&[0x11, ret_at as u8, (ret_at >> 8) as u8]); // LD DE,ret
    a.b(&[0xd5]); // PUSH DE
    a.b(&[0xe9]); // JP HL
    assert_eq!(a.here(), ret_at);
  }
  a.b(&[0x11, 0x00, 0x01]); // LD DE,0x0100
  a.b(&[0x19]); // ADD HL,DE
  a.b(&[0x7c, 0xfe, 0x80]); // LD A,H; CP 0x80
  let d = (call_loop as i32 - (a.here() as i32 + 2)) as i8;
  a.b(&[0x20, d as u8]); // JR NZ,call_loop
  // after every bank: one very long straight-line block (about 12 000 instructions, some
  // 300 KiB of host code), entered one byte later each time so that it is a new block
  // every time - sooner or later it is the block that finds the cache nearly full
  a.b(&[0x78, 0x6f, 0x26, 0x10]); // LD A,B; LD L,A; LD H,0x10
  {
    let ret_at = a.here() + 5;
    a.b(&[0x11, ret_at as u8, (ret_at >> 8) as u8]); // LD DE,ret
    a.b(&[0xd5]); // PUSH DE
    a.b(&[0xe9]); // JP HL
    assert_eq!(a.here(), ret_at);
  }
  a.b(&[0x04, 0x78, 0xfe, 0x80]); // INC B; LD A,B; CP 0x80
  let d2 = (bank_loop as i32 - (a.here() as i32 + 2)) as i8;
  a.b(&[0x20, d2 as u8]); // JR NZ,bank_loop
  // report the checksum over serial, then idle
  a.b(&[0x79]);
  a.ldh_to(0x01);
  a.ld_a(0x81);
  a.ldh_to(0x02);
  a.b(&[0x76, 0x18, 0xfd]);
  image[0x0150..0x0150 + a.bytes.len()].copy_from_slice(&a.bytes);
  support::stamp_header(&mut image, 0x13, 0x06, 0x03);
  (image, "cache pressure: 127 banks x 64 distinct routines of 200-239 instructions, called once each".to_string())
}
