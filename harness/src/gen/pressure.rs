//! A guest program whose translated footprint exceeds the recompiler's fixed
//! code cache: 127 banks x 64 distinct routines of 200-239 instructions, all
//! called once by a small table-free driver loop (MBC3, 128 banks: one register
//! write selects a bank). About 5 KiB of host code per routine: the 8 MiB cache
//! is used up after roughly 1200 routines (~5000 block steps).

use super::program::Asm;
use crate::support;

/// Blocks that take as long as a block can: bank 1 of a ROM-only image is 16383 x PUSH BC
/// (4 machine cycles per byte, the most any instruction costs per byte) closed by RST 00 at
/// 0x7FFF; the code at 0x0000 resets SP and enters the bank one byte later every time, so the
/// blocks cost 65536, 65532, 65528 ... machine cycles (262144 clocks: more than three frames,
/// exactly one revolution of the 16-bit divider, one more than a 16-bit cycle counter holds).
/// The timer runs at its fastest rate and the display is on.
pub fn long_duration_image() -> (Vec<u8>, String) {
  let mut image = support::make_image(0x00, 0x00, 0x00);
  for i in 0..image.len() {
    image[i] = [0x76u8, 0x18, 0xfd, 0x00][i & 3];
  }
  for v in [0x40usize, 0x48, 0x50, 0x58, 0x60].iter() {
    image[*v] = 0xd9; // RETI
  }
  for i in 0x4000..0x7fffusize {
    image[i] = 0xc5; // PUSH BC
  }
  image[0x7fff] = 0xc7; // RST 00
  image[0..5].copy_from_slice(&[0x31, 0xf0, 0xdf, 0x2c, 0xe9]); // LD SP,0xDFF0; INC L; JP (HL)
  let mut a = Asm::new(0x0150);
  a.b(&[0xf3, 0x01, 0x34, 0x12]); // DI; LD BC,0x1234
  a.ld_a(0x05);
  a.ldh_to(0x07); // TAC: enabled, 16 clocks
  a.ld_a(0x91);
  a.ldh_to(0x40); // display on
  a.ld_hl(0x40ff);
  a.jp(0x0000);
  image[0x0150..0x0150 + a.bytes.len()].copy_from_slice(&a.bytes);
  support::stamp_header(&mut image, 0x00, 0x00, 0x00);
  (image, "long duration: blocks of 16383 x PUSH BC + RST 00, entered one byte later each time (65536, 65532 ... machine cycles)".to_string())
}

/// A loop that is one single block of exactly one frame period (17556 machine cycles:
/// 8776 x LD A,(HL) + JP back), entered after `lead` NOPs: whenever the emulator looks at
/// the LCD between two blocks it finds it at the same place of the frame.
pub fn frame_synchronous_image(lead: usize) -> (Vec<u8>, String) {
  let mut image = support::make_image(0x00, 0x00, 0x00);
  for i in 0..image.len() {
    image[i] = [0x76u8, 0x18, 0xfd, 0x00][i & 3];
  }
  for v in [0x40usize, 0x48, 0x50, 0x58, 0x60].iter() {
    image[*v] = 0xd9; // RETI
  }
  for i in 0x4000..0x4000 + 8776usize {
    image[i] = 0x7e; // LD A,(HL)
  }
  image[0x4000 + 8776..0x4000 + 8779].copy_from_slice(&[0xc3, 0x00, 0x40]); // JP 0x4000
  let mut a = Asm::new(0x0150);
  a.b(&[0xf3]); // DI
  a.ld_a(0x91);
  a.ldh_to(0x40); // display on
  a.ld_hl(0xc000);
  for _ in 0..lead {
    a.b(&[0x00]);
  }
  a.jp(0x4000);
  image[0x0150..0x0150 + a.bytes.len()].copy_from_slice(&a.bytes);
  support::stamp_header(&mut image, 0x00, 0x00, 0x00);
  (image, format!("frame synchronous: a one-block loop of exactly 17556 machine cycles, entered after {} NOPs", lead))
}

pub fn cache_pressure_image() -> (Vec<u8>, String) {
  let mut image = support::make_image(0x13, 0x06, 0x03);
  for i in 0..image.len() {
    image[i] = [0x76u8, 0x18, 0xfd, 0x00][i & 3];
  }
  for bank in 1..128usize {
    for k in 0..64usize {
      let mut a = Asm::new(0x4000 + (k as u16) * 0x100);
      a.ld_a((bank ^ k) as u8);
      for _ in 0..(200 + (bank + k) % 40) {
        a.b(&[0x3c]); // INC A
      }
      a.b(&[0x81, 0x4f, 0xc9]); // ADD A,C; LD C,A; RET
      let off = bank * 0x4000 + k * 0x100;
      image[off..off + a.bytes.len()].copy_from_slice(&a.bytes);
    }
  }
  for v in [0x40usize, 0x48, 0x50, 0x58, 0x60].iter() {
    image[*v] = 0xd9; // RETI
  }
  // the long slide in bank 0: INC E from 0x1000 to 0x3EFF, RET at 0x3F00
  for i in 0x1000..0x3f00usize {
    image[i] = 0x1c;
  }
  image[0x3f00] = 0xc9;
  let mut a = Asm::new(0x0150);
  a.b(&[0xf3, 0x31, 0xfe, 0xff, 0x0e, 0x00]); // DI; LD SP,FFFE; LD C,0
  a.b(&[0x06, 0x01]); // LD B,1
  let bank_loop = a.here();
  a.ld_hl(0x4000);
  let call_loop = a.here();
  // the routine at HL in bank B (new code: a translation, sooner or later the
  // one during which the cache starts over), then the routine at the same
  // address in bank 1 (translated long ago: whatever the cache holds for this
  // address now must be bank 1's code)
  for sel in 0..2 {
    if sel == 0 {
      a.b(&[0x78]); // LD A,B
    } else {
      a.ld_a(0x01);
    }
    a.ld_a_to(0x2100);
    let ret_at = a.here() + 5;
    a.b(&[0x11, ret_at as u8, (ret_at >> 8) as u8]); // LD DE,ret
    a.b(&[0xd5]); // PUSH DE
    a.b(&[0xe9]); // JP HL
    assert_eq!(a.here(), ret_at);
  }
  a.b(&[0x11, 0x00, 0x01]); // LD DE,0x0100
  a.b(&[0x19]); // ADD HL,DE
  a.b(&[0x7c, 0xfe, 0x80]); // LD A,H; CP 0x80
  let d = (call_loop as i32 - (a.here() as i32 + 2)) as i8;
  a.b(&[0x20, d as u8]); // JR NZ,call_loop
  // after every bank: one very long straight-line block (about 12 000 instructions, some
  // 300 KiB of host code), entered one byte later each time so that it is a new block
  // every time - sooner or later it is the block that finds the cache nearly full
  a.b(&[0x78, 0x6f, 0x26, 0x10]); // LD A,B; LD L,A; LD H,0x10
  {
    let ret_at = a.here() + 5;
    a.b(&[0x11, ret_at as u8, (ret_at >> 8) as u8]); // LD DE,ret
    a.b(&[0xd5]); // PUSH DE
    a.b(&[0xe9]); // JP HL
    assert_eq!(a.here(), ret_at);
  }
  a.b(&[0x04, 0x78, 0xfe, 0x80]); // INC B; LD A,B; CP 0x80
  let d2 = (bank_loop as i32 - (a.here() as i32 + 2)) as i8;
  a.b(&[0x20, d2 as u8]); // JR NZ,bank_loop
  // report the checksum over serial, then idle
  a.b(&[0x79]);
  a.ldh_to(0x01);
  a.ld_a(0x81);
  a.ldh_to(0x02);
  a.b(&[0x76, 0x18, 0xfd]);
  image[0x0150..0x0150 + a.bytes.len()].copy_from_slice(&a.bytes);
  support::stamp_header(&mut image, 0x13, 0x06, 0x03);
  (image, "cache pressure: 127 banks x 64 distinct routines of 200-239 instructions, called once each".to_string())
}

/// Interrupt dispatches whose own push cancels them: with IE = IF = timer only, SP = 0x0000
/// puts the high byte of the pushed PC (0x01: all of this code lies in 0x0150-0x01FF) on IE,
/// SP = 0xFF10 puts it on IF; either way nothing is pending any more and the dispatch ends at
/// 0x0000 - after the same five machine cycles as any other (`high` selects where the code
/// lies, so that the byte that lands on IE/IF varies; both must leave bit 2 clear). A third
/// dispatch per round, with SP in work RAM, goes to its vector as usual. 0x0000 and the
/// vectors hold JP (HL); HL is loaded with the continuation before every EI.
pub fn cancelled_dispatch_image(high: u8) -> (Vec<u8>, String) {
  assert!(high & 0x04 == 0 && high >= 0x01 && high < 0x40);
  let mut image = support::make_image(0x00, 0x00, 0x00);
  for i in 0..image.len() {
    image[i] = [0x76u8, 0x18, 0xfd, 0x00][i & 3];
  }
  for v in [0x00usize, 0x40, 0x48, 0x50, 0x58, 0x60].iter() {
    image[*v] = 0xe9; // JP (HL)
  }
  let org: u16 = if high == 0x01 { 0x0150 } else { (high as u16) << 8 };
  let mut a = Asm::new(org);
  // three rounds laid out one after the other; every one ends in a self loop that only a
  // dispatch leaves, and names the next one in HL
  let sps: [u16; 3] = [0x0000, 0xff10, 0xd000];
  let round_len = 24u16;
  for (k, &sp) in sps.iter().enumerate() {
    let start = a.here();
    let next = if k == 2 { org } else { start + round_len };
    a.b(&[0xf3]); // DI
    a.ld_a(0x04);
    a.ldh_to(0xff); // IE = timer
    a.ld_a(0x04);
    a.ldh_to(0x0f); // IF = timer
    a.ld_hl(next);
    a.b(&[0x31, sp as u8, (sp >> 8) as u8]); // LD SP,sp
    a.b(&[0xfb, 0x00, 0x3c, 0x00]); // EI; NOP; INC A; NOP
    a.b(&[0x18, 0xfe]); // JR self
    while a.here() < start + round_len {
      a.b(&[0x00]);
    }
    assert_eq!(a.here(), start + round_len);
  }
  image[org as usize..org as usize + a.bytes.len()].copy_from_slice(&a.bytes);
  support::stamp_header(&mut image, 0x00, 0x00, 0x00);
  if high != 0x01 {
    image[0x102] = 0x00;
    image[0x103] = high;
    image[0x14d] = support::header_checksum(&image);
  }
  (image, format!("cancelled dispatches: IE=IF=timer, EI with SP=0x0000 / 0xFF10 / 0xD000 in turn, code at {:04X} (the pushed high byte {:02X} lands on IE, on IF, in work RAM)", org, high))
}

/// Every relative-jump displacement inside a running program (MBC1, 16 banks): 753 sites,
/// each `XOR A; JR/JR Z/JR NC d` with a `JP <next site>` at the target, for every d in
/// 0..=127 and -128..=-6 (the others would land on the jump itself) under three rotations of
/// the opcode; 60 sites per bank, bank 0 maps the next bank in after each.
pub fn jr_ladder_image() -> (Vec<u8>, String) {
  let mut image = support::make_image(0x01, 0x03, 0x00);
  for i in 0..image.len() {
    image[i] = [0x76u8, 0x18, 0xfd, 0x00][i & 3];
  }
  let ds: Vec<i32> = (0..=127).chain(-128..=-6).collect();
  const OPS: [u8; 3] = [0x18, 0x28, 0x30];
  const PER_BANK: usize = 60;
  const BLK: usize = 0x110;
  let total = ds.len() * 3;
  let mut a = Asm::new(0x0150);
  a.b(&[0xf3, 0x31, 0xf0, 0xdf, 0x06, 0x01]); // DI; LD SP,0xDFF0; LD B,1
  let next_bank = a.here();
  a.b(&[0x78]); // LD A,B
  a.ld_a_to(0x2100);
  a.b(&[0x04]); // INC B
  a.jp(0x4000);
  let end = a.here();
  a.b(&[0x76, 0x18, 0xfd]);
  image[0x0150..0x0150 + a.bytes.len()].copy_from_slice(&a.bytes);
  let entry = |i: usize| -> u16 { (0x4000 + (i % PER_BANK) * BLK + 0x87) as u16 };
  for n in 0..total {
    let bank = 1 + n / PER_BANK;
    let base = bank * 0x4000 - 0x4000; // file offset of guest address 0x4000 in this bank is bank*0x4000
    let off = |guest: usize| -> usize { base + guest };
    let blk = 0x4000 + (n % PER_BANK) * BLK;
    let s = blk + 0x88;
    let d = ds[n % ds.len()];
    let op = OPS[(n + n / ds.len()) % 3];
    if n % PER_BANK == 0 {
      let e = entry(n);
      image[off(0x4000)..off(0x4003)].copy_from_slice(&[0xc3, e as u8, (e >> 8) as u8]);
    }
    image[off(s - 1)] = 0xaf; // XOR A: Z set, C clear - all three forms are taken
    image[off(s)] = op;
    image[off(s + 1)] = d as u8;
    let t = (s as i32 + 2 + d) as usize;
    let next: u16 = if n + 1 == total {
      end
    } else if (n + 1) % PER_BANK == 0 {
      next_bank
    } else {
      entry(n + 1)
    };
    image[off(t)..off(t + 3)].copy_from_slice(&[0xc3, next as u8, (next >> 8) as u8]);
  }
  support::stamp_header(&mut image, 0x01, 0x03, 0x00);
  (image, format!("relative-jump ladder: {} sites XOR A; JR/JR Z/JR NC d; JP next - every displacement 0..127 and -128..-6 under each opcode, 60 sites per bank", total))
}
