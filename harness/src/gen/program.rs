//! Structured guest-program generator: counted loops, CALL/RET nests,
//! interrupt handlers ending in RETI, timer/LCD interrupts, HALT waits, OAM DMA
//! through an HRAM routine, code copied to work RAM and executed there, ROM
//! bank switches into banks that hold different code at the same address,
//! serial output, device-register reads stored to memory.

use crate::rt::Rng;
use crate::support;

pub struct Asm {
  pub org: u16,
  pub bytes: Vec<u8>,
}

impl Asm {
  pub fn new(org: u16) -> Asm {
    Asm { org, bytes: Vec::new() }
  }
  pub fn here(&self) -> u16 {
    self.org.wrapping_add(self.bytes.len() as u16)
  }
  pub fn b(&mut self, bytes: &[u8]) {
    self.bytes.extend_from_slice(bytes);
  }
  pub fn ld_a(&mut self, v: u8) {
    self.b(&[0x3e, v]);
  }
  pub fn ldh_to(&mut self, reg: u8) {
    self.b(&[0xe0, reg]);
  }
  pub fn ldh_from(&mut self, reg: u8) {
    self.b(&[0xf0, reg]);
  }
  pub fn ld_hl(&mut self, v: u16) {
    self.b(&[0x21, v as u8, (v >> 8) as u8]);
  }
  pub fn ld_a_to(&mut self, addr: u16) {
    self.b(&[0xea, addr as u8, (addr >> 8) as u8]);
  }
  pub fn call(&mut self, addr: u16) {
    self.b(&[0xcd, addr as u8, (addr >> 8) as u8]);
  }
  pub fn jp(&mut self, addr: u16) {
    self.b(&[0xc3, addr as u8, (addr >> 8) as u8]);
  }
}

#[derive(Clone, Debug, Default)]
pub struct Features {
  pub loops: u32,
  pub calls: u32,
  pub halts: u32,
  pub dmas: u32,
  pub wram_calls: u32,
  pub hram_calls: u32,
  pub bank_switches: u32,
  pub serial_bytes: u32,
  pub device_reads: u32,
  pub ei_di: u32,
}

pub struct Program {
  pub image: Vec<u8>,
  pub cart_type: u8,
  pub banks: usize,
  pub features: Features,
  pub description: String,
}

/// register-only filler that never touches B (loop counter), H, L or SP
fn filler(rng: &mut Rng, a: &mut Asm, n: usize) {
  const OPS: [u8; 40] = [
    0x3c, 0x3d, 0x0c, 0x0d, 0x14, 0x15, 0x1c, 0x1d, 0x07, 0x0f, 0x17, 0x1f, 0x27, 0x2f, 0x37, 0x3f, 0x79, 0x7a, 0x7b, 0x4f, 0x57, 0x5f, 0x81,
    0x82, 0x8b, 0x91, 0x9a, 0xa3, 0xa9, 0xb2, 0xbb, 0x87, 0x97, 0x13, 0x1b, 0x00, 0x8f, 0x9f, 0xaf, 0xb7,
  ];
  for _ in 0..n {
    match rng.below(8) {
      0 => a.b(&[*rng.pick(&[0xc6u8, 0xce, 0xd6, 0xde, 0xe6, 0xee, 0xf6, 0xfe]), rng.edgy_u8()]),
      1 => a.b(&[*rng.pick(&[0x3eu8, 0x0e, 0x16, 0x1e]), rng.u8()]),
      2 => {
        // CB op on A, C, D or E
        let z = *rng.pick(&[7u8, 1, 2, 3]);
        a.b(&[0xcb, (rng.u8() & 0xf8) | z]);
      }
      _ => a.b(&[*rng.pick(&OPS)]),
    }
  }
}

/// DMG-ish program. `cart_type` 0x01..0x03 (MBC1) or 0x11..0x13 (MBC3) or 0x00.
pub fn generate(seed: u64, index: u64, cart_type: u8, rom_code: u8) -> Program {
  let mut rng = Rng::from(&[seed, 0x9406, index]);
  let banks = support::rom_banks_for_code(rom_code);
  let banked = cart_type != 0x00;
  let mut image = support::make_image(cart_type, rom_code, 0x03);
  let mut f = Features::default();
  // fill every bank with HALT;JR -3 traps so that a stray jump is harmless and visible
  for i in 0..image.len() {
    image[i] = match i & 3 {
      0 => 0x76,
      1 => 0x18,
      2 => 0xfd,
      _ => 0x00,
    };
  }
  let hram_counter = 0xff90u16;

  // ---- per-bank routines at 0x4000 (different code, different lengths per bank)
  let nbank_routines = 3;
  let mut bank_routine_addr = vec![0u16; nbank_routines];
  for r in 0..nbank_routines {
    bank_routine_addr[r] = 0x4000 + (r as u16) * 0x40;
  }
  for bank in 1..banks {
    for r in 0..nbank_routines {
      let mut a = Asm::new(bank_routine_addr[r]);
      let mut brng = Rng::from(&[seed, index, bank as u64, r as u64, 77]);
      a.ld_a(bank as u8 ^ (r as u8) << 6);
      filler(&mut brng, &mut a, 1 + (bank * 3 + r) % 7);
      a.b(&[0x81]); // ADD A,C
      a.b(&[0x4f]); // LD C,A
      if (bank + r) % 3 == 0 {
        // a conditional early return: different block structure per bank
        a.b(&[0xc8]); // RET Z
        filler(&mut brng, &mut a, 2);
      }
      a.b(&[0xc9]);
      let off = bank * 0x4000 + (bank_routine_addr[r] as usize - 0x4000);
      image[off..off + a.bytes.len()].copy_from_slice(&a.bytes);
    }
  }

  // ---- "hop" routine at 0x4100 in every bank: one single block that does bank-specific
  // work, picks the next bank and leaves through the work-RAM trampoline, which maps that
  // bank and jumps to 0x4100 again (code in RAM is never translated: the same banked
  // address is entered twice in a row with nothing but a bank switch in between)
  let hop_mask = (banks.min(32).max(2) - 1) as u8;
  for bank in 1..banks {
    let mut a = Asm::new(0x4100);
    for _ in 0..(bank % 3) {
      a.b(&[0x1c]); // INC E
    }
    a.ld_a((bank as u8).wrapping_mul(13) ^ 0x5a);
    a.b(&[0x81, 0x4f]); // ADD A,C; LD C,A
    a.ld_hl(0xc0f1);
    a.b(&[0x7e, 0xc6, 1 + 2 * (bank % 4) as u8, 0xe6, hop_mask, 0x77]); // LD A,(HL); ADD A,step; AND mask; LD (HL),A
    a.ld_hl(0x4100);
    a.jp(0xc180);
    let off = bank * 0x4000 + 0x0100;
    image[off..off + a.bytes.len()].copy_from_slice(&a.bytes);
  }

  // ---- "switch under its own feet" routine at 0x4180, the same bytes in every bank: maps
  // the bank named in 0xC0F2 in mid-block, then reads the window through an absolute address
  // (the second byte of the per-bank routine at 0x4000, different in every bank) and adds it
  // to 0xC0F3 - the byte read must be the newly mapped bank's
  for bank in 1..banks {
    let mut a = Asm::new(0x4180);
    a.b(&[0xfa, 0xf2, 0xc0]); // LD A,(0xC0F2)
    a.ld_a_to(0x2100);
    a.b(&[0xfa, 0x01, 0x40]); // LD A,(0x4001)
    a.ld_hl(0xc0f3);
    a.b(&[0x86, 0x77, 0xc9]); // ADD A,(HL); LD (HL),A; RET
    let off = bank * 0x4000 + 0x0180;
    image[off..off + a.bytes.len()].copy_from_slice(&a.bytes);
  }

  // ---- the last two bytes of every switchable bank: INC E; JP nn - the jump is cut by the end
  // of the window and takes its target from video RAM (set by the caller: a RET in bank 0)
  for bank in 1..banks {
    let off = bank * 0x4000;
    image[off + 0x3ffe] = 0x1c;
    image[off + 0x3fff] = 0xc3;
  }
  image[0x0fe0] = 0xc9;
  image[0x0fe8] = 0x1c; // a second target: INC E; RET
  image[0x0fe9] = 0xc9;

  // ---- subroutines in bank 0 from 0x1000
  let mut subs: Vec<u16> = Vec::new();
  let mut sub_asm = Asm::new(0x1000);
  let nsubs = 3 + rng.below(4) as usize;
  for s in 0..nsubs {
    subs.push(sub_asm.here());
    let k = 1 + rng.below(6) as usize;
    filler(&mut rng, &mut sub_asm, k);
    if s > 0 && rng.chance(1, 2) {
      // nested call to an earlier subroutine
      let t = subs[rng.below(s as u64) as usize];
      sub_asm.call(t);
    }
    if rng.chance(1, 3) {
      sub_asm.b(&[0xc5]); // PUSH BC
      filler(&mut rng, &mut sub_asm, 2);
      sub_asm.b(&[0xc1]); // POP BC
    }
    if rng.chance(1, 3) {
      sub_asm.b(&[0xd0]); // RET NC
    }
    let k = rng.below(3) as usize;
    filler(&mut rng, &mut sub_asm, k);
    sub_asm.b(&[0xc9]);
  }
  // routine to be copied to work RAM and to HRAM (position independent)
  let wram_routine_src = sub_asm.here();
  {
    filler(&mut rng, &mut sub_asm, 3);
    sub_asm.b(&[0x06, 0x03]); // LD B,3
    sub_asm.b(&[0x0c]); // INC C
    sub_asm.b(&[0x05]); // DEC B
    sub_asm.b(&[0x20, 0xfc]); // JR NZ,-4
    sub_asm.b(&[0xc9]);
  }
  let wram_routine_len = sub_asm.here() - wram_routine_src;
  let dma_routine_src = sub_asm.here();
  {
    // classic OAM DMA wait routine, source page in A on entry
    sub_asm.ldh_to(0x46);
    sub_asm.ld_a(0x28);
    sub_asm.b(&[0x3d]); // DEC A
    sub_asm.b(&[0x20, 0xfd]); // JR NZ,-3
    sub_asm.b(&[0xc9]);
  }
  let dma_routine_len = sub_asm.here() - dma_routine_src;
  // bank-switch trampoline, to be copied to work RAM (0xC180): maps the bank in A, counts
  // a hop down at 0xC0F0, returns when it reaches zero, else jumps to HL
  let tramp_src = sub_asm.here();
  sub_asm.b(&[0xea, 0x00, 0x21, 0xfa, 0xf0, 0xc0, 0x3d, 0xea, 0xf0, 0xc0, 0xc8, 0xe9]);
  let tramp_len = sub_asm.here() - tramp_src;
  image[0x1000..0x1000 + sub_asm.bytes.len()].copy_from_slice(&sub_asm.bytes);

  // ---- interrupt handlers at the vectors
  for (k, vec) in [0x40usize, 0x48, 0x50, 0x58, 0x60].iter().enumerate() {
    let mut a = Asm::new(*vec as u16);
    a.b(&[0xf5]); // PUSH AF
    a.ldh_from(0x90 + k as u8);
    a.b(&[0x3c]); // INC A
    a.ldh_to(0x90 + k as u8);
    if k == 2 && rng.chance(1, 2) {
      // timer handler also samples DIV
      a.ldh_from(0x04);
      a.ldh_to(0x98);
    }
    a.b(&[0xf1]); // POP AF
    a.b(&[0xd9]); // RETI
    assert!(a.bytes.len() <= 16);
    image[*vec..*vec + a.bytes.len()].copy_from_slice(&a.bytes);
  }
  // vectors are 8 bytes apart: long handlers would overlap, so jump out of line
  // (handlers above are <= 8 bytes except the timer variant)
  {
    // re-emit compactly: handler bodies out of line at 0x0200 + 0x20*k
    for (k, vec) in [0x40usize, 0x48, 0x50, 0x58, 0x60].iter().enumerate() {
      let target = 0x0f00 + 0x20 * k;
      let mut body = Asm::new(target as u16);
      body.b(&[0xf5]);
      body.ldh_from(0x90 + k as u8);
      body.b(&[0x3c]);
      body.ldh_to(0x90 + k as u8);
      if k == 2 {
        body.ldh_from(0x04);
        body.ldh_to(0x98);
      }
      if k == 0 {
        body.ldh_from(0x41);
        body.ldh_to(0x99);
      }
      body.b(&[0xf1]);
      body.b(&[0xd9]);
      image[target..target + body.bytes.len()].copy_from_slice(&body.bytes);
      let mut v = Asm::new(*vec as u16);
      v.jp(target as u16);
      for i in 0..8 {
        image[*vec + i] = 0x00;
      }
      image[*vec..*vec + 3].copy_from_slice(&v.bytes);
    }
  }

  // ---- restart routines at 0x00, 0x08 .. 0x38: up to 6 bytes of filler and RET
  for k in 0..8usize {
    let mut v = Asm::new((k * 8) as u16);
    let mut vrng = Rng::from(&[seed, index, k as u64, 78]);
    v.b(&[0x0c]); // INC C
    while v.bytes.len() < 1 + (k % 4) {
      v.b(&[*vrng.pick(&[0x3cu8, 0x0d, 0x14, 0x1d, 0x07, 0x2f, 0x37, 0x81, 0xa9])]);
    }
    v.b(&[0xc9]);
    for i in 0..8 {
      image[k * 8 + i] = 0x00;
    }
    image[k * 8..k * 8 + v.bytes.len()].copy_from_slice(&v.bytes);
  }

  // ---- "peek" in bank 0: fixed-bank code that reads the switchable window through an
  // absolute address (the second byte of the per-bank routine: different in every bank)
  {
    let mut v = Asm::new(0x0fc0);
    v.b(&[0xfa, 0x01, 0x40]); // LD A,(0x4001)
    v.b(&[0x81, 0x4f, 0xc9]); // ADD A,C; LD C,A; RET
    image[0x0fc0..0x0fc0 + v.bytes.len()].copy_from_slice(&v.bytes);
  }

  // ---- entry and init
  image[0x100] = 0x00;
  image[0x101] = 0xc3;
  image[0x102] = 0x50;
  image[0x103] = 0x01;
  let mut a = Asm::new(0x0150);
  a.b(&[0xf3]); // DI
  a.b(&[0x31, 0xfe, 0xff]); // LD SP,0xFFFE
  // copy the work-RAM routine to 0xC100 and the DMA routine to 0xFF80
  for (src, dst, len) in [(wram_routine_src, 0xc100u16, wram_routine_len), (dma_routine_src, 0xff80u16, dma_routine_len), (tramp_src, 0xc180u16, tramp_len)].iter() {
    a.ld_hl(*src);
    a.b(&[0x11, *dst as u8, (*dst >> 8) as u8]); // LD DE,dst
    a.b(&[0x06, *len as u8]); // LD B,len
    a.b(&[0x2a]); // LD A,(HL+)
    a.b(&[0x12]); // LD (DE),A
    a.b(&[0x13]); // INC DE
    a.b(&[0x05]); // DEC B
    a.b(&[0x20, 0xfa]); // JR NZ,-6
  }
  // two small routines in RAM whose immediate operand is rewritten between calls
  // (LD A,n; ADD A,C; LD C,A; RET at 0xFFA0 and at 0xC1C0): what runs is what RAM holds now
  for dst in [0xffa0u16, 0xc1c0].iter() {
    for (i, b) in [0x3eu8, 0x11, 0x81, 0x4f, 0xc9].iter().enumerate() {
      a.ld_a(*b);
      a.ld_a_to(*dst + i as u16);
    }
  }
  // devices: timer period and enable, STAT enables, LYC, LCDC, IE
  let tac = 0x04 | (rng.below(4) as u8);
  a.ld_a(rng.u8());
  a.ldh_to(0x06); // TMA
  a.ld_a(tac);
  a.ldh_to(0x07);
  a.ld_a(*rng.pick(&[0x00u8, 0x08, 0x10, 0x20, 0x40, 0x48, 0x28]));
  a.ldh_to(0x41);
  a.ld_a(rng.below(154) as u8);
  a.ldh_to(0x45);
  a.ld_a(0x91);
  a.ldh_to(0x40);
  a.ld_a(0xe4);
  a.ldh_to(0x47);
  let ie = 0x01 | (rng.u8() & 0x06);
  a.ld_a(ie);
  a.ldh_to(0xff);
  a.b(&[0xaf]); // XOR A
  a.ldh_to(0x0f);
  a.b(&[0x0e, 0x00]); // LD C,0
  a.b(&[0xfb]); // EI
  let main = a.here();
  // ---- main: random snippets, then loop forever
  let nsnip = 10 + rng.below(30) as usize;
  let mut desc = String::new();
  for _ in 0..nsnip {
    if a.here() > 0x0e00 {
      break;
    }
    match rng.below(24) {
      22 | 23 => {
        if banked && banks > 2 {
          // a chain of hops: 0x4100 under bank after bank, switched by code in work RAM
          a.ld_a(2 + rng.below(5) as u8);
          a.ld_a_to(0xc0f0);
          a.ld_a(1 + (rng.u8() & hop_mask & 0xfe));
          a.ld_a_to(0xc0f1);
          a.ld_hl(0x4100);
          a.call(0xc180);
          f.bank_switches += 1;
          f.wram_calls += 1;
          desc.push_str("hops ");
        }
      }
      14 => {
        // software interrupt request: IF written by the program
        a.ld_a(rng.u8() & 0x1f);
        a.ldh_to(0x0f);
        f.ei_di += 1;
        desc.push_str("if-write ");
      }
      15 => {
        // RST to a small routine in the restart area
        a.b(&[*rng.pick(&[0xc7u8, 0xcf, 0xd7, 0xdf, 0xe7, 0xef, 0xf7, 0xff])]);
        f.calls += 1;
        desc.push_str("rst ");
      }
      16 => {
        // EI;HALT, DI;HALT and STOP: VBlank stays enabled in IE, so each wakes up
        match rng.below(3) {
          0 => a.b(&[0xfb, 0x76]),
          1 => a.b(&[0xf3, 0x76, 0x00, 0xfb]),
          _ => a.b(&[0x10, 0x00]),
        }
        f.halts += 1;
        desc.push_str("halt2 ");
      }
      17 => {
        // IE rewritten mid-program, VBlank always stays enabled
        a.ld_a(0x01 | (rng.u8() & 0x1e));
        a.ldh_to(0xff);
        desc.push_str("ie-write ");
      }
      18 => {
        // JP (HL) / JR / conditional JP forward over a few trap bytes
        let kind = rng.below(3);
        let skip = 1 + rng.below(3) as u16;
        match kind {
          0 => {
            let target = a.here() + 4 + skip;
            a.ld_hl(target);
            a.b(&[0xe9]);
          }
          1 => a.b(&[0x18, skip as u8]),
          _ => {
            // JP cc,target ; JP target : both lead to the same place
            let target = a.here() + 6 + skip;
            a.b(&[*rng.pick(&[0xc2u8, 0xca, 0xd2, 0xda]), target as u8, (target >> 8) as u8]);
            a.jp(target);
          }
        }
        for _ in 0..skip {
          a.b(&[0x76]);
        }
        desc.push_str("jump ");
      }
      19 => {
        // stack pointer arithmetic and stores
        match rng.below(3) {
          0 => {
            let e = rng.below(8) as u8;
            a.b(&[0xe8, e.wrapping_neg(), 0xe8, e]); // ADD SP,-e ; ADD SP,e
          }
          1 => a.b(&[0xf8, rng.u8(), 0x7c, 0x85, 0x4f]), // LD HL,SP+e ; LD A,H ; ADD A,L ; LD C,A
          _ => a.b(&[0x08, 0x80 + rng.below(0x40) as u8, 0xc2]), // LD (0xC28x),SP
        }
        desc.push_str("sp ");
      }
      20 => {
        // interrupt handler state observed by the main program
        a.ldh_from(0x90 + rng.below(5) as u8);
        a.b(&[0x81, 0x4f]); // ADD A,C ; LD C,A
        f.device_reads += 1;
        desc.push_str("irq-count ");
      }
      21 => {
        // LCD switched off and on again, or STAT enables / LYC changed
        match rng.below(3) {
          0 => {
            a.ld_a(0x11);
            a.ldh_to(0x40);
            let k = 1 + rng.below(6) as usize;
            filler(&mut rng, &mut a, k);
            a.ld_a(0x91);
            a.ldh_to(0x40);
          }
          1 => {
            a.ld_a(*rng.pick(&[0x00u8, 0x08, 0x10, 0x20, 0x40, 0x78]));
            a.ldh_to(0x41);
          }
          _ => {
            a.ld_a(rng.below(154) as u8);
            a.ldh_to(0x45);
          }
        }
        desc.push_str("lcd ");
      }
      0 | 1 => {
        let k = 1 + rng.below(8) as usize;
        filler(&mut rng, &mut a, k);
      }
      2 => {
        // counted loop
        let n = 1 + rng.below(20) as u8;
        a.b(&[0x06, n]);
        let top = a.here();
        let k = 1 + rng.below(4) as usize;
        filler(&mut rng, &mut a, k);
        a.b(&[0x05]);
        let disp = (top as i32 - (a.here() as i32 + 2)) as i8;
        a.b(&[0x20, disp as u8]);
        f.loops += 1;
        desc.push_str("loop ");
      }
      3 => {
        let t = *rng.pick(&subs);
        if rng.chance(1, 3) {
          a.b(&[*rng.pick(&[0xc4u8, 0xcc, 0xd4, 0xdc]), t as u8, (t >> 8) as u8]);
        } else {
          a.call(t);
        }
        f.calls += 1;
        desc.push_str("call ");
      }
      4 => {
        a.b(&[0x76]);
        f.halts += 1;
        desc.push_str("halt ");
      }
      5 => {
        a.ld_a(*rng.pick(&[0xc0u8, 0xc1, 0x10, 0x80, 0xd0, 0x00]));
        a.call(0xff80);
        f.dmas += 1;
        f.hram_calls += 1;
        desc.push_str("dma ");
      }
      6 => {
        a.call(0xc100);
        f.wram_calls += 1;
        desc.push_str("wram-call ");
        if rng.chance(1, 2) {
          // rewrite the operand of a RAM-resident routine that has run before, then run it again
          let dst = if rng.chance(1, 2) { 0xffa0u16 } else { 0xc1c0 };
          // (all five bytes: other snippets store through HL anywhere in RAM)
          let n = rng.u8();
          for (i, b) in [0x3eu8, n, 0x81, 0x4f, 0xc9].iter().enumerate() {
            a.ld_a(*b);
            a.ld_a_to(dst + i as u16);
          }
          a.call(dst);
          f.wram_calls += 1;
          desc.push_str("ram-code-rewritten ");
        }
      }
      7 => {
        if banked {
          let bank = 1 + rng.below((banks - 1) as u64) as u8;
          a.ld_a(bank);
          a.ld_a_to(0x2000 + rng.below(0x2000) as u16);
          let r = rng.below(nbank_routines as u64) as usize;
          a.call(bank_routine_addr[r]);
          if rng.chance(1, 2) {
            a.call(0x0fc0); // peek into the bank just mapped, from bank-0 code
          }
          if rng.chance(1, 4) {
            // leave the window through its last instruction (target bytes in video RAM)
            a.ld_a(if rng.chance(1, 2) { 0xe0 } else { 0xe8 });
            a.ld_a_to(0x8000);
            a.ld_a(0x0f);
            a.ld_a_to(0x8001);
            a.call(0x7ffe);
          }
          if banks > 2 && rng.chance(1, 3) {
            a.ld_a(1 + rng.below((banks - 1) as u64) as u8);
            a.ld_a_to(0xc0f2);
            a.call(0x4180); // the mapped bank replaces itself in mid-block, then reads the window
            f.bank_switches += 1;
          }
          f.bank_switches += 1;
          desc.push_str("bank ");
        }
      }
      8 => {
        a.ld_a(0x20 + rng.below(0x5f) as u8);
        a.ldh_to(0x01);
        a.ld_a(if rng.chance(4, 5) { 0x81 } else { 0x01 });
        a.ldh_to(0x02);
        f.serial_bytes += 1;
        desc.push_str("serial ");
      }
      9 => {
        // device register read stored to work RAM: timing becomes data
        let reg = *rng.pick(&[0x04u8, 0x05, 0x44, 0x41, 0x0f]);
        if rng.chance(1, 3) {
          a.b(&[0xfa, reg, 0xff]); // the long form LD A,(0xFFxx)
        } else {
          a.ldh_from(reg);
        }
        a.ld_a_to(0xc200 + rng.below(0x100) as u16);
        f.device_reads += 1;
        desc.push_str("devread ");
      }
      10 => {
        a.b(&[if rng.chance(1, 2) { 0xfb } else { 0xf3 }]);
        if rng.chance(1, 2) {
          a.b(&[0x00]);
          a.b(&[0xfb]);
        }
        f.ei_di += 1;
        desc.push_str("ei/di ");
      }
      11 => {
        // memory traffic through HL
        a.ld_hl(*rng.pick(&[0xc300u16, 0xd000, 0x8000, 0x9800, 0xfe00, 0xffa5, 0xa000, 0xcfff]));
        a.b(&[*rng.pick(&[0x77u8, 0x34, 0x35, 0x36, 0x86, 0xbe, 0x22, 0x32, 0x7e, 0x4e])]);
        if *a.bytes.last().unwrap() == 0x36 {
          a.b(&[rng.u8()]);
        }
        a.b(&[0xcb, (rng.u8() & 0xf8) | 6]);
      }
      12 => {
        // timer register writes mid-program
        a.ld_a(rng.u8());
        let reg = *rng.pick(&[0x04u8, 0x05, 0x06]);
        if rng.chance(1, 3) {
          a.ld_a_to(0xff00 | reg as u16); // the long form LD (0xFFxx),A
        } else {
          a.ldh_to(reg);
        }
      }
      _ => {
        a.b(&[0xc5, 0xd5, 0xe5, 0xf5]);
        filler(&mut rng, &mut a, 2);
        a.b(&[0xf1, 0xe1, 0xd1, 0xc1]);
      }
    }
  }
  // re-select bank 1 (a no-op write for ROM-only carts) and loop
  a.ld_a(1);
  a.ld_a_to(0x2100);
  a.jp(main);
  image[0x0150..0x0150 + a.bytes.len()].copy_from_slice(&a.bytes);
  support::stamp_header(&mut image, cart_type, rom_code, 0x03);
  Program { image, cart_type, banks, features: f, description: desc }
}
