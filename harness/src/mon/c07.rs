//! C07 - interrupt dispatch: priority, masking, master enable, HALT/STOP wake
//! up, push order, cancellation by the push itself.

use crate::devices::interrupts::InterruptFlag;
use crate::devices::io::IO;
use crate::emulator::{Core, InterruptState, RunState};
use crate::rt::{hash_words, Ctx, Rng};
use crate::support;

#[derive(Clone, Copy, Debug, PartialEq, Eq)]
struct St {
  iflag: u8,
  ie: u8,
  ime: u8, // 0 disabled 1 enabled 2 enable-next
  run: u8, // 0 run 1 halt 2 stop
  pc: u16,
  sp: u16,
  cycles: u32,
}

/// reference: returns (state after, writes, decision point used for cancellation)
fn reference(s: &St, decide_after_second_push: bool) -> (St, Vec<(u16, u8)>) {
  let mut o = *s;
  let pending = s.iflag & s.ie & 0x1f;
  if pending == 0 {
    return (o, vec![]);
  }
  o.run = 0;
  if s.ime != 1 {
    return (o, vec![]);
  }
  o.ime = 0;
  let mut writes = Vec::new();
  let mut iflag = s.iflag;
  let mut ie = s.ie;
  let mut apply = |addr: u16, v: u8, iflag: &mut u8, ie: &mut u8| {
    if addr == 0xffff {
      *ie = v & 0x1f;
    } else if addr == 0xff0f {
      *iflag = v & 0x1f;
    }
  };
  let sp1 = s.sp.wrapping_sub(1);
  let sp2 = s.sp.wrapping_sub(2);
  writes.push((sp1, (s.pc >> 8) as u8));
  apply(sp1, (s.pc >> 8) as u8, &mut iflag, &mut ie);
  let pending_after_first = iflag & ie & 0x1f;
  writes.push((sp2, s.pc as u8));
  apply(sp2, s.pc as u8, &mut iflag, &mut ie);
  let pending_after_second = iflag & ie & 0x1f;
  let decided = if decide_after_second_push { pending_after_second } else { pending_after_first };
  o.sp = sp2;
  o.cycles = s.cycles + 5;
  if decided == 0 {
    o.pc = 0;
  } else {
    let bit = decided.trailing_zeros() as u16;
    o.pc = 0x40 + 8 * bit;
    iflag &= !(1u8 << bit);
  }
  o.iflag = iflag;
  o.ie = ie;
  (o, writes)
}

fn load(core: &mut Core, s: &St) {
  core.memory.io.interrupt_flag = InterruptFlag::new(s.iflag);
  core.memory.io.interrupt_mask = s.ie;
  core.interrupts_enabled = support::ime_from(s.ime);
  core.run_state = support::run_from(s.run);
  core.registers.ip = s.pc as u32;
  core.registers.sp = s.sp as u32;
  core.registers.cycles = s.cycles;
}

fn push_class(sp: u16) -> &'static str {
  let a = sp.wrapping_sub(1);
  let b = sp.wrapping_sub(2);
  if a == 0xffff || b == 0xffff {
    "push-hits-IE"
  } else if a == 0xff0f || b == 0xff0f {
    "push-hits-IF"
  } else if a < 0x8000 || b < 0x8000 {
    "push-hits-ROM"
  } else if (0xff00..0xff80).contains(&a) || (0xff00..0xff80).contains(&b) {
    "push-hits-IO"
  } else {
    "push-hits-RAM"
  }
}

struct Mon<'a> {
  ctx: &'a mut Ctx,
  core: Box<Core>,
  evaluations: u64,
  dispatches: u64,
  cancellations: u64,
  wakeups: u64,
  accept_second: u64,
  hits_ie: u64,
  hits_if: u64,
  hits_rom: u64,
}

impl<'a> Mon<'a> {
  /// direct call of handle_interrupt on prepared state
  fn case(&mut self, s: &St, path: &'static str) {
    load(&mut self.core, s);
    crate::verif::start(false);
    self.core.handle_interrupt();
    crate::verif::stop();
    self.judge(s, s, path);
  }

  /// compare the core with the reference applied to `s_ref` (the state the
  /// dispatch logic saw), reporting against the prepared state `s0`
  fn judge(&mut self, s0: &St, s_ref: &St, path: &'static str) {
    self.evaluations += 1;
    let writes = support::logged_writes();
    let got = St {
      iflag: self.core.memory.io.interrupt_flag.as_u8(),
      ie: self.core.memory.io.interrupt_mask,
      ime: support::ime_code(&self.core.interrupts_enabled),
      run: support::run_code(&self.core.run_state),
      pc: self.core.registers.ip as u16,
      sp: self.core.registers.sp as u16,
      cycles: self.core.registers.cycles,
    };
    let pc32 = self.core.registers.ip;
    let sp32 = self.core.registers.sp;
    let (w1, ww1) = reference(s_ref, false);
    let (w2, ww2) = reference(s_ref, true);
    let pending = s_ref.iflag & s_ref.ie & 0x1f;
    if pending != 0 && s_ref.run != 0 {
      self.wakeups += 1;
    }
    if pending != 0 && s_ref.ime == 1 {
      self.dispatches += 1;
      if w1.pc == 0 {
        self.cancellations += 1;
      }
      match push_class(s_ref.sp) {
        "push-hits-IE" => self.hits_ie += 1,
        "push-hits-IF" => self.hits_if += 1,
        "push-hits-ROM" => self.hits_rom += 1,
        _ => {}
      }
    }
    let ok1 = got == w1 && writes == ww1;
    let ok2 = got == w2 && writes == ww2;
    let in_range = pc32 <= 0xffff && sp32 <= 0xffff;
    if (ok1 || ok2) && in_range {
      if !ok1 {
        self.accept_second += 1;
      }
    } else {
      // name the first differing field against the primary expectation
      let mut field = "state";
      let mut kind = "value";
      if got.run != w1.run {
        field = "run-state";
      } else if got.ime != w1.ime {
        field = "master-enable";
      } else if writes != ww1 {
        field = "pushed-bytes";
      } else if got.sp != w1.sp {
        field = "sp";
      } else if got.pc != w1.pc {
        field = "vector";
      } else if got.iflag != w1.iflag {
        field = "if";
      } else if got.ie != w1.ie {
        field = "ie";
      } else if got.cycles != w1.cycles {
        field = "cycles";
      } else if !in_range {
        field = if sp32 > 0xffff { "sp" } else { "pc" };
        kind = "range";
      }
      let cond = format!(
        "{}:ime={}:{}",
        if pending == 0 { "nothing-pending" } else { "pending" },
        s_ref.ime,
        if pending != 0 && s_ref.ime == 1 { push_class(s_ref.sp) } else { "no-dispatch" }
      );
      let sig = format!("C07:{}:{}:{}:{}", path, field, kind, cond);
      let detail = format!(
        "before: IF={:02X} IE={:02X} IME={} run={} PC={:04X} SP={:04X} cyc={} | after: IF={:02X} IE={:02X} IME={} run={} PC={:X} SP={:X} cyc={} writes={:X?} | expected: IF={:02X} IE={:02X} IME={} run={} PC={:04X} SP={:04X} cyc={} writes={:X?}",
        s0.iflag, s0.ie, s0.ime, s0.run, s0.pc, s0.sp, s0.cycles,
        got.iflag, got.ie, got.ime, got.run, pc32, sp32, got.cycles, writes,
        w1.iflag, w1.ie, w1.ime, w1.run, w1.pc, w1.sp, w1.cycles, ww1
      );
      self.ctx.violation(&sig, &detail);
    }
    // keep device state from leaking into the next case
    if writes.iter().any(|w| (0xff00..0xff80).contains(&w.0)) {
      self.core.memory.io = IO::new();
      self.core.memory.oam_dma = None;
    }
  }
}

pub fn sp_lattice() -> Vec<u16> {
  let mut v: Vec<u16> = Vec::new();
  for &b in [0x0000u16, 0x4000, 0x8000, 0xa000, 0xc000, 0xd000, 0xe000, 0xfe00, 0xfea0, 0xff00, 0xff80].iter() {
    for d in 0..4u16 {
      v.push(b.wrapping_add(d));
      v.push(b.wrapping_sub(d));
    }
  }
  v.extend_from_slice(&[0xff0f, 0xff10, 0xff11, 0xff12, 0xfffe, 0xffff, 0x0001, 0x0002, 0xff46, 0xff47, 0xff48, 0xdff0, 0xc100, 0x2001, 0x6001]);
  v.sort();
  v.dedup();
  v
}

pub fn run(ctx: &mut Ctx) {
  let thorough = ctx.thorough();
  let seed = ctx.seed;
  let image = support::make_image(0x03, 0x06, 0x03);
  let core = support::core_from_image(&image);
  let mut m = Mon { ctx, core, evaluations: 0, dispatches: 0, cancellations: 0, wakeups: 0, accept_second: 0, hits_ie: 0, hits_if: 0, hits_rom: 0 };
  let sps = sp_lattice();
  // PC values whose bytes, pushed onto IE/IF, cancel, keep or re-prioritise the pending set
  let pcs: [u16; 10] = [0x0000, 0x0150, 0xffff, 0xe0e0, 0x1f00, 0x001f, 0x0102, 0x0810, 0xc204, 0x7fe1];
  let mut unit = 0u64;
  for iflag in 0..32u8 {
    for ie in 0..32u8 {
      let u = unit;
      unit += 1;
      if !m.ctx.mine(u) {
        continue;
      }
      m.ctx.intent2(u, 0);
      for ime in 0..3u8 {
        for run in 0..3u8 {
          for &sp in sps.iter() {
            for &pc in pcs.iter() {
              let s = St { iflag, ie, ime, run, pc, sp, cycles: if pc & 1 == 0 { 0 } else { 3 } };
              m.case(&s, "direct");
            }
          }
          m.ctx.distinct_key(hash_words(&[1, iflag as u64, ie as u64, ime as u64, run as u64]));
        }
      }
      // every SP value for the dispatching configuration
      if iflag & ie != 0 {
        let step = if thorough { 1 } else { 7 };
        let mut sp = (u % 7) as u32;
        while sp < 0x10000 {
          let s = St { iflag, ie, ime: 1, run: (sp % 3) as u8, pc: if sp & 8 == 0 { 0x0150 } else { 0xe01f }, sp: sp as u16, cycles: 0 };
          m.case(&s, "direct");
          sp += step;
        }
        m.ctx.distinct_key(hash_words(&[2, iflag as u64, ie as u64]));
      }
    }
  }
  m.ctx.sample("direct: IF=0x15 IE=0x1F IME=enabled run=HALT PC=0xE0E0 SP=0x0000: handle_interrupt() must wake the CPU, push E0 to 0xFFFF (IE becomes 0 -> dispatch cancelled -> PC=0x0000, IF untouched), push E0 to 0xFFFE, SP=0xFFFE, +5 cycles");

  // ---- reached through update(): NOP at PC (run state) or a halted step
  let mut rng = Rng::from(&[seed, 7]);
  // (instruction-stepped builds only: with the recompiler on, update() runs a
  // whole block, which is C04/C09's subject)
  for iflag in 0..32u8 {
    for ie in 0..32u8 {
      let u = unit;
      unit += 1;
      if !m.ctx.mine(u) || cfg!(feature = "jit") {
        continue;
      }
      m.ctx.intent2(u, 1);
      for ime in 0..3u8 {
        for run in 0..3u8 {
          for k in 0..6 {
            let sp = if k < 4 { *rng.pick(&sps) } else { 0xc000 + rng.below(0x1f00) as u16 };
            let pc = 0xc800 + rng.below(0x400) as u16;
            let s = St { iflag, ie, ime, run, pc, sp, cycles: 0 };
            // fresh devices often enough that the LCD, which starts 4560 clocks
            // before its next event, raises nothing on its own (4 clocks per case)
            if m.evaluations % 512 == 0 {
              m.core.memory.io = IO::new();
            }
            m.core.memory.oam_dma = None;
            m.core.memory.work_ram[(pc as usize) & 0xfff] = 0x00; // NOP
            load(&mut m.core, &s);
            crate::verif::start(false);
            m.core.update();
            crate::verif::stop();
            // what handle_interrupt saw: after a NOP (run) PC+1 and consumed cycles reset;
            // EnableNext is promoted by run_interp in the instruction-stepped build
            let mut seen = s;
            if run == 0 {
              seen.pc = pc.wrapping_add(1);
              seen.cycles = 0;
              #[cfg(not(feature = "jit"))]
              {
                if ime == 2 {
                  seen.ime = 1;
                }
              }
            }
            m.judge(&s, &seen, "update");
          }
          m.ctx.distinct_key(hash_words(&[3, iflag as u64, ie as u64, ime as u64, run as u64]));
        }
      }
    }
  }
  m.ctx.sample("update: NOP in work RAM at PC, or a halted/stopped step: Core::update() must leave the state the reference predicts for (instruction, 4 clocks of devices, dispatch)");
  // ---- pushes that land on a device register whose WRITE raises a request of its own
  // (TAC with the selected divider bit high and TIMA = 0xFF; LYC written with the current
  // line; STAT's coincidence enable set while LY == LYC). The devices are part of the
  // reference here: the dispatch steps of the statement are carried out through the real
  // bus on a second, identically primed core, and the two cores must agree.
  let mut primed = 0u64;
  let mut primed_push_raised_a_request = 0u64;
  {
    let u = unit;
    unit += 1;
    if m.ctx.mine(u) {
      m.ctx.intent2(u, 2);
      use crate::mem::{memory_read_byte, memory_write_byte, MemoryAreas};
      use crate::timing::ClockCycles;
      let mut refs: [Box<Core>; 2] = [support::core_from_image(&image), support::core_from_image(&image)];
      let prime = |c: &mut Core, kind: usize| {
        c.memory.io = IO::new();
        c.memory.oam_dma = None;
        let mp = &mut c.memory as *mut MemoryAreas;
        match kind {
          0 => {
            memory_write_byte(mp, 0xff06, 0x33);
            memory_write_byte(mp, 0xff07, 0x05);
            c.memory.run_clock_cycles(ClockCycles(8)); // divider bit 3 is high now
            memory_write_byte(mp, 0xff05, 0xff);
          }
          1 => {
            memory_write_byte(mp, 0xff40, 0x91);
            c.memory.run_clock_cycles(ClockCycles(456 * 20));
            memory_write_byte(mp, 0xff45, 0xc8); // no line has this number
            memory_write_byte(mp, 0xff41, 0x40);
          }
          _ => {
            memory_write_byte(mp, 0xff40, 0x91);
            c.memory.run_clock_cycles(ClockCycles(456 * 20));
            let ly = memory_read_byte(mp, 0xff44);
            memory_write_byte(mp, 0xff45, ly);
          }
        }
      };
      for kind in 0..3usize {
        let target: u16 = [0xff07, 0xff45, 0xff41][kind];
        // the byte that lands on the register
        let mut values: Vec<u8> = vec![0x00, 0x04, 0x05, 0x06, 0x07, 0x01, 0x40, 0x48, 0xff, 0x80, 0x3f];
        {
          prime(&mut m.core, kind);
          let mp = &mut m.core.memory as *mut MemoryAreas;
          values.push(memory_read_byte(mp, 0xff44));
          values.push(memory_read_byte(mp, 0xff44).wrapping_add(1));
        }
        for &val in values.iter() {
          for hit_with_high in [true, false].iter() {
            for &(iflag, ie) in [(0x10u8, 0x14u8), (0x10, 0x16), (0x10, 0x1f), (0x01, 0x07), (0x08, 0x0e), (0x04, 0x04), (0x02, 0x02), (0x10, 0x10)].iter() {
              for ime in [1u8, 0, 2].iter() {
                let (pc, sp) = if *hit_with_high { (((val as u16) << 8) | 0x34, target.wrapping_add(1)) } else { (0x1200 | val as u16, target.wrapping_add(2)) };
                let s = St { iflag, ie, ime: *ime, run: (val % 3) as u8, pc, sp, cycles: 0 };
                // the real thing
                prime(&mut m.core, kind);
                load(&mut m.core, &s);
                m.core.handle_interrupt();
                // the statement, step by step, on two reference cores (decision after the first / second push)
                let mut agree = false;
                let mut detail = String::new();
                for (ri, r) in refs.iter_mut().enumerate() {
                  prime(r, kind);
                  load(r, &s);
                  let pending = r.memory.io.interrupt_flag.as_u8() & r.memory.io.interrupt_mask & 0x1f;
                  if pending != 0 {
                    r.run_state = RunState::Run;
                    if s.ime == 1 {
                      r.interrupts_enabled = InterruptState::Disabled;
                      let mp = &mut r.memory as *mut MemoryAreas;
                      let sp1 = s.sp.wrapping_sub(1);
                      let sp2 = s.sp.wrapping_sub(2);
                      memory_write_byte(mp, sp1, (s.pc >> 8) as u8);
                      let after_first = r.memory.io.interrupt_flag.as_u8() & r.memory.io.interrupt_mask & 0x1f;
                      memory_write_byte(mp, sp2, s.pc as u8);
                      let after_second = r.memory.io.interrupt_flag.as_u8() & r.memory.io.interrupt_mask & 0x1f;
                      if after_first != pending || after_second != pending {
                        if ri == 0 {
                          primed_push_raised_a_request += 1;
                        }
                      }
                      let decided = if ri == 0 { after_first } else { after_second };
                      r.registers.sp = sp2 as u32;
                      r.registers.cycles = s.cycles + 5;
                      if decided == 0 {
                        r.registers.ip = 0;
                      } else {
                        let bit = decided.trailing_zeros();
                        r.registers.ip = 0x40 + 8 * bit;
                        let f = r.memory.io.interrupt_flag.as_u8() & !(1u8 << bit);
                        r.memory.io.interrupt_flag = InterruptFlag::new(f);
                      }
                    }
                  }
                  let view = |c: &mut Core| -> [u32; 11] {
                    let mp = &mut c.memory as *mut MemoryAreas;
                    [
                      c.memory.io.interrupt_flag.as_u8() as u32,
                      c.memory.io.interrupt_mask as u32,
                      support::ime_code(&c.interrupts_enabled) as u32,
                      support::run_code(&c.run_state) as u32,
                      c.registers.ip,
                      c.registers.sp,
                      c.registers.cycles,
                      memory_read_byte(mp, 0xff05) as u32,
                      memory_read_byte(mp, 0xff07) as u32,
                      memory_read_byte(mp, 0xff41) as u32,
                      memory_read_byte(mp, 0xff45) as u32,
                    ]
                  };
                  let a = view(&mut m.core);
                  let b = view(r);
                  if a == b {
                    agree = true;
                    if ri == 1 {
                      m.accept_second += 1;
                    }
                    break;
                  }
                  if ri == 0 {
                    detail = format!("handle_interrupt [IF IE IME run PC SP cyc TIMA TAC STAT LYC] = {:X?}, statement carried out through the bus = {:X?}", a, b);
                  }
                }
                primed += 1;
                m.evaluations += 1;
                if !agree {
                  m.ctx.violation(
                    &format!("C07:primed:{}:{}", ["tac", "lyc", "stat"][kind], if *hit_with_high { "high-byte-lands-on-register" } else { "low-byte-lands-on-register" }),
                    &format!("device primed so that a write of {:02X} to {:04X} may raise a request; IF={:02X} IE={:02X} IME={} PC={:04X} SP={:04X}: {}", val, target, iflag, ie, ime, pc, sp, detail),
                  );
                }
              }
            }
          }
        }
      }
      m.core.memory.io = IO::new();
      m.core.memory.oam_dma = None;
      m.ctx.distinct_key(hash_words(&[9]));
    }
  }
  let _ = unit;
  m.ctx.count("primed-device-cases", primed);
  m.ctx.count("primed-device-cases:push-changed-the-pending-set", primed_push_raised_a_request);
  m.ctx.count("evaluations", m.evaluations);
  m.ctx.count("dispatches", m.dispatches);
  m.ctx.count("dispatches-cancelled-by-push", m.cancellations);
  m.ctx.count("wakeups-from-halt-or-stop", m.wakeups);
  m.ctx.count("accept-set:decision-after-second-push", m.accept_second);
  m.ctx.count("push-hits-IE", m.hits_ie);
  m.ctx.count("push-hits-IF", m.hits_if);
  m.ctx.count("push-hits-ROM", m.hits_rom);
}

pub fn on_crash(intent: &[u64], text: &str, status: &str, _err: &str) -> Option<(String, String)> {
  Some((
    format!("C07:crash:{}:{}", status.replace(' ', ""), text),
    format!("interrupt dispatch killed the process (unit {} path {})", intent[0], intent[1]),
  ))
}
