//! C08 - EI delay, DI/RETI immediacy, HALT/STOP suspension, for every sequence
//! over a small alphabet, instruction-stepped (build without jit).

use crate::devices::interrupts::InterruptFlag;
use crate::devices::io::IO;
use crate::emulator::Core;
use crate::rt::{hash_words, Ctx};
use crate::support;

const EI: u8 = 0;
const DI: u8 = 1;
const RETI: u8 = 2;
const HALT: u8 = 3;
const STOP: u8 = 4;
const NOP: u8 = 5;
const RAISE: u8 = 6; // LD (HL),B with HL=0xFF0F : IF := B
const SETIE: u8 = 7; // LD (DE),A with DE=0xFFFF : IE := A
const NAMES: [&str; 8] = ["EI", "DI", "RETI", "HALT", "STOP", "NOP", "LD(IF)", "LD(IE)"];
const BASE: u16 = 0xc000;
const REG_B: u8 = 0x05; // raises VBlank and Timer
const REG_A: u8 = 0x1f;

fn encode(sym: u8) -> &'static [u8] {
  match sym {
    EI => &[0xfb],
    DI => &[0xf3],
    RETI => &[0xd9],
    HALT => &[0x76],
    STOP => &[0x10, 0x00],
    NOP => &[0x00],
    RAISE => &[0x70],
    _ => &[0x12],
  }
}

#[derive(Clone, Copy, PartialEq, Eq, Debug)]
struct Ref {
  ime: u8, // 0 disabled, 1 enabled, 2 enabled after the next instruction
  run: u8,
  pc: u16,
  sp: u16,
  iflag: u8,
  ie: u8,
}

/// interrupt sampling at the end of a step (same rules as C07's reference,
/// pushes never land on IF/IE here)
fn sample_interrupts(r: &mut Ref) -> bool {
  let pending = r.iflag & r.ie & 0x1f;
  if pending == 0 {
    return false;
  }
  r.run = 0;
  if r.ime != 1 {
    return false;
  }
  r.ime = 0;
  r.sp = r.sp.wrapping_sub(2);
  let bit = pending.trailing_zeros();
  r.iflag &= !(1u8 << bit);
  r.pc = 0x40 + 8 * bit as u16;
  true
}

pub fn run(ctx: &mut Ctx) {
  if cfg!(feature = "jit") {
    ctx.inconclusive("C08 is defined for the instruction-stepped build (no jit)");
    return;
  }
  let max_len: usize = if ctx.thorough() { 7 } else { 5 };
  let image = support::make_image(0x03, 0x06, 0x03);
  let mut core: Box<Core> = support::core_from_image(&image);
  // handlers: vectors hold NOPs (the image is zero filled); make sure of it
  for a in 0x40..0x70usize {
    core.memory.rom[a] = 0x00;
  }
  let mut evaluations = 0u64;
  let mut steps = 0u64;
  let mut skipped_halt_pending = 0u64;
  let mut held_cases = 0u64;
  let mut dispatches = 0u64;
  let mut transitions = std::collections::HashSet::<u32>::new();
  // (IF, IE, a direction button held down with the direction group selected: a held button is
  // no interrupt request - the request was collected long ago - and must wake nothing)
  let pendings: [(u8, u8, bool); 4] = [(0x00, 0x1f, false), (0x04, 0x1f, false), (0x04, 0x00, false), (0x00, 0x0f, true)];
  let mut seq_index = 0u64;
  for len in 1..=max_len {
    let total = 8u64.pow(len as u32);
    for code in 0..total {
      let u = seq_index;
      seq_index += 1;
      if !ctx.mine(u) {
        continue;
      }
      ctx.intent2(u, len as u64);
      let mut syms = [0u8; 8];
      let mut c = code;
      for i in 0..len {
        syms[i] = (c & 7) as u8;
        c >>= 3;
      }
      // lay the sequence out in work RAM, followed by NOPs
      let mut addr_of = [0u16; 9];
      let mut a = BASE;
      for i in 0..len {
        addr_of[i] = a;
        for b in encode(syms[i]) {
          core.memory.work_ram[(a - BASE) as usize] = *b;
          a += 1;
        }
      }
      addr_of[len] = a;
      for k in 0..16 {
        core.memory.work_ram[(a - BASE) as usize + k] = 0x00;
      }
      for ime0 in 0..3u8 {
        for run0 in 0..3u8 {
          for &(if0, ie0, held) in pendings.iter() {
            evaluations += 1;
            // fresh devices often enough that the LCD (which starts 4560 clocks
            // before its next event) never raises a request on its own: one
            // case advances time by at most ~250 clocks
            if evaluations % 16 == 1 {
              core.memory.io = IO::new();
            }
            core.memory.oam_dma = None;
            if held {
              core.memory.io.joypad.set_value(0x20);
              core.memory.io.joypad.press_button(crate::devices::joypad::Button::Right);
              let _ = core.memory.io.joypad.get_interrupt();
              held_cases += 1;
            } else {
              core.memory.io.joypad.release_button(crate::devices::joypad::Button::Right);
              let _ = core.memory.io.joypad.get_interrupt();
            }
            core.memory.io.interrupt_flag = InterruptFlag::new(if0);
            core.memory.io.interrupt_mask = ie0;
            core.interrupts_enabled = support::ime_from(ime0);
            core.run_state = support::run_from(run0);
            core.registers.af = (REG_A as u32) << 8;
            core.registers.bc = (REG_B as u32) << 8;
            core.registers.de = 0xffff;
            core.registers.hl = 0xff0f;
            core.registers.sp = 0xcff0;
            core.registers.ip = BASE as u32;
            core.registers.cycles = 0;
            let mut r = Ref { ime: ime0, run: run0, pc: BASE, sp: 0xcff0, iflag: if0, ie: ie0 };
            let nsteps = len + 4;
            let mut history = String::new();
            for step in 0..nsteps {
              let before = r;
              // which instruction is next?
              let mut what: i32 = -1; // -1: halted step, 8: handler/trailing NOP
              if r.run == 0 {
                what = 8;
                for i in 0..len {
                  if addr_of[i] == r.pc {
                    what = syms[i] as i32;
                  }
                }
                let in_tail = r.pc >= addr_of[len] && r.pc < addr_of[len] + 12;
                let in_handler = r.pc >= 0x40 && r.pc < 0x6c;
                if what == 8 && !in_tail && !in_handler {
                  break; // left the observed program (e.g. dispatch cancelled): stop observing
                }
                if what == RETI as i32 {
                  // the stack holds the address of the next sequence element
                  let i = (0..len).find(|&i| addr_of[i] == r.pc).unwrap();
                  let ret = addr_of[i + 1];
                  let sp = r.sp as usize;
                  core.memory.work_ram[sp & 0xfff] = ret as u8;
                  core.memory.work_ram[(sp + 1) & 0xfff] = (ret >> 8) as u8;
                }
                if what == HALT as i32 && (r.iflag & r.ie & 0x1f) != 0 {
                  skipped_halt_pending += 1;
                  break; // excluded by the property (HALT with an enabled interrupt already pending)
                }
              }
              // ---- reference step
              if r.run == 0 {
                // EI takes effect after the *following* instruction has completed
                let promote = r.ime == 2;
                match what {
                  x if x == EI as i32 => {
                    r.pc += 1;
                    if promote {
                      r.ime = 1;
                    }
                    if r.ime == 0 {
                      r.ime = 2;
                    }
                  }
                  x if x == DI as i32 => {
                    r.pc += 1;
                    r.ime = 0;
                  }
                  x if x == RETI as i32 => {
                    let i = (0..len).find(|&i| addr_of[i] == r.pc).unwrap();
                    r.pc = addr_of[i + 1];
                    r.sp = r.sp.wrapping_add(2);
                    r.ime = 1;
                  }
                  x if x == HALT as i32 => {
                    r.pc += 1;
                    if promote {
                      r.ime = 1;
                    }
                    r.run = 1;
                  }
                  x if x == STOP as i32 => {
                    r.pc += 2;
                    if promote {
                      r.ime = 1;
                    }
                    r.run = 2;
                  }
                  x if x == RAISE as i32 => {
                    r.pc += 1;
                    if promote {
                      r.ime = 1;
                    }
                    r.iflag = REG_B & 0x1f;
                  }
                  x if x == SETIE as i32 => {
                    r.pc += 1;
                    if promote {
                      r.ime = 1;
                    }
                    r.ie = REG_A & 0x1f;
                  }
                  _ => {
                    r.pc += 1;
                    if promote {
                      r.ime = 1;
                    }
                  }
                }
              }
              let dispatched = sample_interrupts(&mut r);
              if dispatched {
                dispatches += 1;
              }
              // ---- implementation step
              core.update();
              steps += 1;
              let got = Ref {
                ime: support::ime_code(&core.interrupts_enabled),
                run: support::run_code(&core.run_state),
                pc: core.registers.ip as u16,
                sp: core.registers.sp as u16,
                iflag: core.memory.io.interrupt_flag.as_u8(),
                ie: core.memory.io.interrupt_mask,
              };
              let opname = if what < 0 {
                "suspended-step"
              } else if what == 8 {
                "NOP(tail/handler)"
              } else {
                NAMES[what as usize]
              };
              transitions.insert(((before.ime as u32) << 16) | ((before.run as u32) << 8) | ((what + 1) as u32));
              history.push_str(opname);
              history.push(' ');
              if got != r || core.registers.ip > 0xffff || core.registers.sp > 0xffff {
                let field = if got.ime != r.ime {
                  "master-enable"
                } else if got.run != r.run {
                  "run-state"
                } else if got.pc != r.pc {
                  "pc"
                } else if got.sp != r.sp {
                  "sp"
                } else if got.iflag != r.iflag {
                  "if"
                } else if got.ie != r.ie {
                  "ie"
                } else {
                  "range"
                };
                let sig = format!(
                  "C08:{}:{}:ime-before={}:run-before={}:pending-before={}",
                  opname,
                  field,
                  before.ime,
                  before.run,
                  (before.iflag & before.ie & 0x1f != 0) as u8
                );
                let seq: Vec<&str> = (0..len).map(|i| NAMES[syms[i] as usize]).collect();
                let detail = format!(
                  "sequence [{}] start IME={} run={} IF={:02X} IE={:02X}; executed: {}; step {} ({}): expected {:?}, emulator {:?}",
                  seq.join(" "),
                  ime0,
                  run0,
                  if0,
                  ie0,
                  history,
                  step,
                  opname,
                  r,
                  got
                );
                ctx.violation(&sig, &detail);
                break;
              }
            }
          }
        }
      }
      ctx.distinct_key(hash_words(&[len as u64, code]));
      if ctx.want_sample() && code % 9973 == 17 {
        let seq: Vec<&str> = (0..len).map(|i| NAMES[syms[i] as usize]).collect();
        ctx.sample(&format!("sequence [{}] x 3 IME states x 3 run states x 3 pending states, one update() per instruction, compared with the reference state machine after every step", seq.join(" ")));
      }
    }
  }
  for t in transitions.iter() {
    ctx.distinct_key(hash_words(&[99, *t as u64]));
  }
  ctx.count("evaluations", evaluations);
  ctx.count("cases-with-a-button-held-down", held_cases);
  ctx.count("steps-compared", steps);
  ctx.count("dispatches-expected", dispatches);
  ctx.count("excluded:halt-with-pending-interrupt", skipped_halt_pending);
  ctx.count("transition-kinds-seen-by-this-worker(ime,run,op)", transitions.len() as u64);
}

pub fn on_crash(intent: &[u64], text: &str, status: &str, _err: &str) -> Option<(String, String)> {
  Some((
    format!("C08:crash:{}:{}", status.replace(' ', ""), text),
    format!("the emulator killed the process in sequence #{} (length {})", intent[0], intent[1]),
  ))
}
