//! C10 - every bus address decodes to the documented region. After each write
//! of a history, the whole address space is read back and compared with a
//! reference bus (flat shadow memories + I/O register model); the fetch view is
//! compared with the data view over ROM, work RAM and high RAM.

use crate::mem::{get_executable_memory_slice, memory_push_word, memory_read_byte, memory_read_word, memory_write_byte, memory_write_word, MemoryAreas};
use crate::rt::{hash_words, Ctx, Rng};
use crate::support;
use crate::timing::ClockCycles;

pub struct RefBus {
  pub rom: Vec<u8>,
  pub rom_banks: usize,
  pub ram: Vec<u8>,
  pub ram_banks: usize,
  pub vram: Vec<u8>,
  pub wram: Vec<u8>,
  pub oam: Vec<u8>,
  pub hram: Vec<u8>,
  pub ie: u8,
  pub io: [u8; 0x80],
  /// per-address constants of unmapped cells, learnt at first observation
  pub constants: Vec<Option<u8>>,
  pub iflag: u8,
  /// device state that moves with time: learnt from the implementation after
  /// every `elapse` (what it must be is C13/C14's subject), constant between
  pub ly: u8,
  pub stat_mode: u8,
  pub div: u8,
  /// a write to 0xFF46 happened and no time has passed since: OAM will change
  pub dma_armed: bool,
}

/// I/O registers the emulator implements as readable: (offset, mask of defined bits)
pub const READABLE: [(u8, u8); 17] = [
  (0x00, 0x3f),
  (0x04, 0xff),
  (0x05, 0xff),
  (0x06, 0xff),
  (0x07, 0x07),
  (0x0f, 0x1f),
  (0x40, 0xff),
  (0x41, 0x7f),
  (0x42, 0xff),
  (0x43, 0xff),
  (0x44, 0xff),
  (0x45, 0xff),
  (0x47, 0xff),
  (0x48, 0xff),
  (0x49, 0xff),
  (0x4a, 0xff),
  (0x4b, 0xff),
];

impl RefBus {
  pub fn io_mask(off: u8) -> Option<u8> {
    READABLE.iter().find(|r| r.0 == off).map(|r| r.1)
  }

  fn io_read(&self, off: u8) -> u8 {
    match off {
      0x00 => (self.io[0] & 0x30) | 0x0f, // no button pressed: all input lines high
      0x04 => self.div,
      0x0f => self.iflag & 0x1f,
      0x41 => (self.io[0x41] & 0x78) | if self.io[0x45] == self.ly { 4 } else { 0 } | self.stat_mode,
      0x44 => self.ly,
      _ => self.io[off as usize],
    }
  }

  fn io_write(&mut self, off: u8, v: u8) {
    match off {
      0x0f => self.iflag = v & 0x1f,
      0x41 => {
        self.io[0x41] = v;
        if v & 0x40 != 0 && self.io[0x45] == self.ly {
          self.iflag |= 2;
        }
      }
      0x45 => {
        self.io[0x45] = v;
        if self.io[0x41] & 0x40 != 0 && v == self.ly {
          self.iflag |= 2;
        }
      }
      0x44 => {}
      0x04 => self.div = 0,
      0x46 => {
        self.io[0x46] = v;
        self.dma_armed = true;
      }
      _ => self.io[off as usize] = v,
    }
  }
}

#[derive(Clone, Copy, PartialEq, Eq, Debug)]
enum Region {
  Rom0,
  RomN,
  Vram,
  CartRam,
  Wram,
  Echo,
  Oam,
  Unused,
  Io,
  Hram,
  Ie,
}

fn region(a: u16) -> Region {
  match a {
    0x0000..=0x3fff => Region::Rom0,
    0x4000..=0x7fff => Region::RomN,
    0x8000..=0x9fff => Region::Vram,
    0xa000..=0xbfff => Region::CartRam,
    0xc000..=0xdfff => Region::Wram,
    0xe000..=0xfdff => Region::Echo,
    0xfe00..=0xfe9f => Region::Oam,
    0xfea0..=0xfeff => Region::Unused,
    0xff00..=0xff7f => Region::Io,
    0xff80..=0xfffe => Region::Hram,
    0xffff => Region::Ie,
  }
}

struct Mon<'a> {
  ctx: &'a mut Ctx,
  mem: Box<MemoryAreas>,
  r: RefBus,
  cfg_name: &'static str,
  evaluations: u64,
  bytes_compared: u64,
  fetch_compared: u64,
  writes_by_region: [u64; 11],
  rom_bank_now: usize,
  ram_bank_now: usize,
  elapses: u64,
  word_stores: u64,
  store_already_done: bool,
  defer_read_back: bool,
}

impl<'a> Mon<'a> {
  fn mp(&mut self) -> *mut MemoryAreas {
    &mut *self.mem as *mut MemoryAreas
  }

  /// which bank is visible in the switchable ROM window / the cartridge RAM
  /// window, judged only from what the bus returns (each bank carries its index)
  fn identify_banks(&mut self) -> Result<(), String> {
    let mp = self.mp();
    let lo = memory_read_byte(mp, 0x4000) as usize;
    let hi = memory_read_byte(mp, 0x4001) as usize;
    let b = lo | (hi << 8);
    if b >= self.r.rom_banks {
      return Err(format!("ROM window shows bytes that belong to no bank (index bytes {:02X} {:02X})", lo, hi));
    }
    self.rom_bank_now = b;
    if self.r.ram.len() < 0x2000 {
      self.ram_bank_now = 0; // no RAM, or a chip smaller than the window: one (mirrored) bank
    } else if self.r.ram_banks > 0 {
      // RAM bank identification uses the shadow: find the bank whose first bytes match
      let probe: Vec<u8> = (0..8u16).map(|i| memory_read_byte(mp, 0xa000 + i)).collect();
      let mut found = None;
      for k in 0..self.r.ram_banks {
        if self.r.ram[k * 0x2000..k * 0x2000 + 8] == probe[..] {
          found = Some(k);
          break;
        }
      }
      match found {
        Some(k) => self.ram_bank_now = k,
        None => return Err("cartridge RAM window shows bytes that belong to no RAM bank".to_string()),
      }
    }
    Ok(())
  }

  fn ref_read(&mut self, a: u16, observed: u8) -> u8 {
    match region(a) {
      Region::Rom0 => self.r.rom[a as usize],
      Region::RomN => self.r.rom[self.rom_bank_now * 0x4000 + (a as usize & 0x3fff)],
      Region::Vram => self.r.vram[a as usize & 0x1fff],
      Region::CartRam => {
        if self.r.ram.is_empty() {
          // no cartridge RAM: an unmapped window (constant, ignores writes)
          let c = self.r.constants[a as usize].get_or_insert(observed);
          *c
        } else {
          // a chip smaller than the 8 KiB window repeats inside it: its address lines
          // simply do not see the upper bits (cells store independently, addresses alias)
          let n = self.r.ram.len();
          self.r.ram[(self.ram_bank_now * 0x2000 + (a as usize & 0x1fff)) % n]
        }
      }
      Region::Wram => self.r.wram[a as usize & 0x1fff],
      Region::Oam => self.r.oam[a as usize & 0xff],
      Region::Hram => self.r.hram[a as usize & 0x7f],
      Region::Ie => self.r.ie,
      Region::Io => {
        let off = a as u8;
        match RefBus::io_mask(off) {
          Some(mask) => self.r.io_read(off) & mask,
          None => {
            if off == 0x01 || off == 0x02 {
              return observed; // serial read side: excluded by the property
            }
            let c = self.r.constants[a as usize].get_or_insert(observed);
            *c
          }
        }
      }
      Region::Echo | Region::Unused => {
        let c = self.r.constants[a as usize].get_or_insert(observed);
        *c
      }
    }
  }

  fn observed(&mut self, a: u16) -> u8 {
    let mp = self.mp();
    let v = memory_read_byte(mp, a);
    if region(a) == Region::Io {
      if let Some(mask) = RefBus::io_mask(a as u8) {
        return v & mask;
      }
    }
    v
  }

  /// full read-back of the address space against the reference
  fn sweep(&mut self, after: &str, step: u32) -> bool {
    if let Err(e) = self.identify_banks() {
      self.ctx.violation(&format!("C10:{}:rom-or-ram-window-inconsistent", self.cfg_name), &format!("after {}: {}", after, e));
      return false;
    }
    let mut a: u32 = 0;
    let mut ok = true;
    while a < 0x10000 {
      let addr = a as u16;
      let got = self.observed(addr);
      let want = self.ref_read(addr, got);
      self.bytes_compared += 1;
      if got != want {
        let reg = region(addr);
        let what = match reg {
          Region::Io => format!("io:FF{:02X}", addr as u8),
          Region::Ie => "ie".to_string(),
          Region::Echo | Region::Unused => format!("{:?}:not-constant", reg).to_lowercase(),
          _ => format!("{:?}", reg).to_lowercase(),
        };
        self.ctx.violation(
          &format!("C10:readback:{}:after-{}", what, after.split(' ').next().unwrap_or("")),
          &format!("{} cartridge, after {}: read {:04X} = {:02X}, reference {:02X}", self.cfg_name, after, addr, got, want),
        );
        ok = false;
        // resynchronise the reference on this cell so one defect is reported once per sweep
        self.resync(addr, got);
      }
      a += step;
    }
    ok
  }

  fn resync(&mut self, a: u16, v: u8) {
    match region(a) {
      Region::Vram => self.r.vram[a as usize & 0x1fff] = v,
      Region::CartRam => {
        if !self.r.ram.is_empty() {
          let n = self.r.ram.len();
          self.r.ram[(self.ram_bank_now * 0x2000 + (a as usize & 0x1fff)) % n] = v
        } else {
          self.r.constants[a as usize] = Some(v);
        }
      }
      Region::Wram => self.r.wram[a as usize & 0x1fff] = v,
      Region::Oam => self.r.oam[a as usize & 0xff] = v,
      Region::Hram => self.r.hram[a as usize & 0x7f] = v,
      Region::Ie => self.r.ie = v,
      Region::Io => {
        let off = a as u8;
        if off == 0x0f {
          self.r.iflag = v;
        } else {
          self.r.io[off as usize] = v;
        }
      }
      _ => self.r.constants[a as usize] = Some(v),
    }
  }

  fn fetch_view(&mut self, after: &str, step: u32) {
    let mp = self.mp();
    let mut a: u32 = 0;
    while a < 0x10000 {
      let addr = a as u16;
      let exec = matches!(region(addr), Region::Rom0 | Region::RomN | Region::Wram | Region::Hram);
      if exec {
        let s = get_executable_memory_slice(a as usize, mp);
        let d = memory_read_byte(mp, addr);
        self.fetch_compared += 1;
        // an instruction is up to three bytes long: whatever the slice offers beyond the
        // first byte must be what the data view shows at the following addresses
        for k in 1..s.len().min(3) {
          if !matches!(region(addr.wrapping_add(k as u16)), Region::Rom0 | Region::RomN | Region::Wram | Region::Hram) {
            break; // the property speaks of ROM, work RAM and high RAM only
          }
          let dk = memory_read_byte(mp, addr.wrapping_add(k as u16));
          if s[k] != dk {
            self.ctx.violation(
              &format!("C10:{}:fetch-view!=data-view:{:?}:operand-bytes", self.cfg_name, region(addr)).to_lowercase().replace("c10", "C10"),
              &format!("after {}: fetch slice at {:04X} offers byte +{} = {:02X}, data read at {:04X} sees {:02X}", after, addr, k, s[k], addr.wrapping_add(k as u16), dk),
            );
            return;
          }
        }
        if s.is_empty() || s[0] != d {
          self.ctx.violation(
            &format!("C10:{}:fetch-view!=data-view:{:?}", self.cfg_name, region(addr)).to_lowercase().replace("c10", "C10"),
            &format!("after {}: fetch at {:04X} sees {:?}, data read sees {:02X}", after, addr, s.get(0), d),
          );
          return;
        }
      }
      a += step;
    }
  }

  fn learn_lcd_position(&mut self) {
    let mp = self.mp();
    self.r.ly = memory_read_byte(mp, 0xff44);
    self.r.stat_mode = memory_read_byte(mp, 0xff41) & 3;
    // LY moving onto or off LYC changes the coincidence bit, and may have requested STAT
    self.r.iflag = memory_read_byte(mp, 0xff0f) & 0x1f;
  }

  /// Let `clocks` of emulated time pass. The registers that move with time are
  /// learnt afterwards (DIV, TIMA, IF, LY, STAT mode; OAM when a DMA transfer
  /// was started); everything else must read back exactly as before.
  fn elapse(&mut self, clocks: usize, sweep_step: u32) {
    let clocks = if self.r.dma_armed { clocks.max(4 * 200) } else { clocks };
    self.elapses += 1;
    self.mem.run_clock_cycles(ClockCycles(clocks));
    let mp = self.mp();
    self.r.div = memory_read_byte(mp, 0xff04);
    self.r.io[0x05] = memory_read_byte(mp, 0xff05);
    self.learn_lcd_position();
    if self.r.dma_armed {
      for i in 0..0xa0u16 {
        self.r.oam[i as usize] = memory_read_byte(mp, 0xfe00 + i);
      }
      self.r.dma_armed = false;
    }
    let after = format!("elapse {} clocks", clocks);
    self.sweep(&after, sweep_step);
  }

  /// one write, mirrored into the reference, followed by the read-back
  fn write(&mut self, a: u16, v: u8, sweep_step: u32) {
    self.evaluations += 1;
    let reg = region(a);
    self.writes_by_region[reg as usize] += 1;
    // (for the bytes of a 16-bit store the banks were identified before the store was made)
    if !self.store_already_done && self.identify_banks().is_err() {
      return;
    }
    let mp = self.mp();
    if !self.store_already_done {
      memory_write_byte(mp, a, v);
    }
    match reg {
      Region::Rom0 | Region::RomN | Region::Echo | Region::Unused => {}
      Region::Vram => self.r.vram[a as usize & 0x1fff] = v,
      Region::CartRam => {
        if !self.r.ram.is_empty() {
          let n = self.r.ram.len();
          self.r.ram[(self.ram_bank_now * 0x2000 + (a as usize & 0x1fff)) % n] = v;
        }
      }
      Region::Wram => self.r.wram[a as usize & 0x1fff] = v,
      Region::Oam => self.r.oam[a as usize & 0xff] = v,
      Region::Hram => self.r.hram[a as usize & 0x7f] = v,
      Region::Ie => self.r.ie = v,
      Region::Io => self.r.io_write(a as u8, v),
    }
    if reg == Region::Io {
      match a as u8 {
        // a DIV or TAC write may count one more TIMA step (and overflow): C13's subject
        0x04 | 0x07 => {
          self.r.io[0x05] = memory_read_byte(mp, 0xff05);
          self.r.iflag = memory_read_byte(mp, 0xff0f) & 0x1f;
        }
        // switching the LCD off or on may move the scan position: C14's subject
        0x40 => self.learn_lcd_position(),
        _ => {}
      }
    }
    if self.defer_read_back {
      return;
    }
    let after = format!("write {:04X}={:02X}", a, v);
    self.sweep(&after, sweep_step);
    self.fetch_view(&after, sweep_step.max(1));
  }

  /// A 16-bit store (as LD (nn),SP does: low byte first; or as a push does: high
  /// byte to a+1 first). It must be indistinguishable from the two byte stores in
  /// that order: the reference is updated byte by byte, the read-back follows.
  fn write_word(&mut self, a: u16, v: u16, push: bool, sweep_step: u32) {
    if self.identify_banks().is_err() {
      return;
    }
    let mp = self.mp();
    let (lo, hi) = (v as u8, (v >> 8) as u8);
    if push {
      memory_push_word(mp, a, v);
    } else {
      memory_write_word(mp, a, v);
    }
    self.word_stores += 1;
    let order = if push { [(a.wrapping_add(1), hi), (a, lo)] } else { [(a, lo), (a.wrapping_add(1), hi)] };
    self.store_already_done = true;
    self.defer_read_back = true;
    self.write(order[0].0, order[0].1, sweep_step);
    self.defer_read_back = false;
    self.write(order[1].0, order[1].1, sweep_step);
    self.store_already_done = false;
    // and the 16-bit load sees what two byte loads see
    let w = memory_read_word(mp, a);
    let b = memory_read_byte(mp, a) as u16 | ((memory_read_byte(mp, a.wrapping_add(1)) as u16) << 8);
    if w != b && !(0xff00..0xff80).contains(&a) && !(0xff00..0xff80).contains(&a.wrapping_add(1)) {
      self.ctx.violation(
        &format!("C10:{}:word-read!=two-byte-reads", self.cfg_name),
        &format!("16-bit read at {:04X} gives {:04X}, the two byte reads give {:04X}", a, w, b),
      );
    }
  }
}

fn build(cart_type: u8, rom_code: u8, ram_code: u8, cgb_flag: u8, rng: &mut Rng) -> (Box<MemoryAreas>, RefBus) {
  let banks = support::rom_banks_for_code(rom_code);
  let mut image = support::make_image(cart_type, rom_code, ram_code);
  for b in 0..banks {
    for i in 0..0x4000usize {
      image[b * 0x4000 + i] = (i as u8).wrapping_mul(7) ^ (b as u8).wrapping_mul(29) ^ ((i >> 7) as u8);
    }
    // bank index at the start of every bank (also bank 0: offset 0x0000 of the image)
    image[b * 0x4000] = b as u8;
    image[b * 0x4000 + 1] = (b >> 8) as u8;
  }
  support::stamp_header(&mut image, cart_type, rom_code, ram_code);
  if cgb_flag != 0 {
    // header byte 0x143 is inside the checksummed range: fix the checksum up
    let old = image[0x143];
    image[0x143] = cgb_flag;
    image[0x14d] = image[0x14d].wrapping_sub(cgb_flag.wrapping_sub(old));
  }
  let core = support::core_from_image(&image);
  // keep only the memory (the Core's cache is irrelevant here); it stays boxed inside the core
  let mut core = core;
  let ram_bytes = support::ram_bytes_for_code(ram_code);
  let ram_banks = ram_bytes / 0x2000;
  // every cartridge RAM bank starts with its own index pattern
  for k in 0..ram_banks {
    for i in 0..0x2000usize {
      core.memory.cart_ram[k * 0x2000 + i] = (k as u8).wrapping_mul(0x35) ^ (i as u8) ^ 0xa5;
    }
  }
  if ram_bytes > 0 && ram_bytes < 0x2000 {
    for i in 0..ram_bytes {
      core.memory.cart_ram[i] = (i as u8) ^ ((i >> 8) as u8).wrapping_mul(0x1d) ^ 0x5a;
    }
  }
  let _ = rng;
  let r = RefBus {
    rom: image.clone(),
    rom_banks: banks,
    ram: core.memory.cart_ram.to_vec(),
    ram_banks,
    vram: vec![0; 0x2000],
    wram: vec![0; 0x2000],
    oam: vec![0; 0x100],
    hram: vec![0; 0x80],
    ie: 0,
    io: {
      let mut io = [0u8; 0x80];
      // power-on values the emulator reports before any write (read back now)
      for off in 0..0x80u16 {
        io[off as usize] = memory_read_byte(core.memory.as_ptr(), 0xff00 + off);
      }
      io[0x00] = 0x30; // no group selected
      io
    },
    constants: vec![None; 0x10000],
    iflag: 0,
    ly: memory_read_byte(core.memory.as_ptr(), 0xff44),
    stat_mode: memory_read_byte(core.memory.as_ptr(), 0xff41) & 3,
    div: memory_read_byte(core.memory.as_ptr(), 0xff04),
    dma_armed: false,
  };
  // move the MemoryAreas out of the core: swap in a trivial one so the Core can be dropped
  let placeholder = MemoryAreas::with_rom(vec![0u8; 1].into_boxed_slice());
  let mem = std::mem::replace(&mut core.memory, placeholder);
  (Box::new(mem), r)
}

pub fn run(ctx: &mut Ctx) {
  let thorough = ctx.thorough();
  let seed = ctx.seed;
  // (the last three were added after a seeded change that only misbehaved on a 2 KiB chip:
  // small and absent cartridge RAM, and a second size of each controller)
  // ("-cgb": header byte 0x143 = 0x80, the only other header field an image can differ in
  // that an emulator might act on; added after a seeded change that did)
  let configs: [(&'static str, u8, u8, u8); 7] = [
    ("mbc1", 0x03, 0x06, 0x03),
    ("mbc3", 0x13, 0x06, 0x03),
    ("rom-only", 0x00, 0x00, 0x02),
    ("mbc1-2k", 0x03, 0x02, 0x01),
    ("mbc3-8k", 0x13, 0x03, 0x02),
    ("mbc1-noram", 0x01, 0x04, 0x00),
    ("mbc1-cgb", 0x03, 0x02, 0x03),
  ];
  let mut unit = 0u64;
  let mut totals = (0u64, 0u64, 0u64);
  let mut by_region = [0u64; 11];
  let mut elapses = 0u64;
  let mut word_stores = 0u64;
  for (ci, &(name, ct, rc, rac)) in configs.iter().enumerate() {
    // work units: chunks of the target-address space
    let chunks = 64u32;
    for chunk in 0..chunks {
      let u = unit;
      unit += 1;
      if !ctx.mine(u) {
        continue;
      }
      ctx.intent(&[u, ci as u64, chunk as u64]);
      let mut rng = Rng::from(&[seed, 10, ci as u64, chunk as u64]);
      let (mem, r) = build(ct, rc, rac, if name.ends_with("-cgb") { 0x80 } else { 0x00 }, &mut rng);
      let mut m = Mon { ctx, mem, r, cfg_name: name, evaluations: 0, bytes_compared: 0, fetch_compared: 0, writes_by_region: [0; 11], rom_bank_now: 1, ram_bank_now: 0, elapses: 0, word_stores: 0, store_already_done: false, defer_read_back: false };
      // initial read-back (learns the constants of unmapped cells)
      m.sweep("power-on", 1);
      // a random history first: bank registers, I/O registers, RAM
      for _ in 0..24 {
        let a = match rng.below(5) {
          0 => rng.below(0x8000) as u16,
          1 => 0xff00 + rng.below(0x80) as u16,
          2 => 0xa000 + rng.below(0x2000) as u16,
          _ => rng.u16(),
        };
        m.write(a, rng.edgy_u8(), 97);
        if rng.chance(1, 3) {
          m.elapse(4 * (1 + rng.below(*rng.clone().pick(&[8u64, 300, 20_000])) as usize), 97);
        }
      }
      // the display is on for the rest of the history in two thirds of the units (power-on LCDC
      // is 0): writes then land in every LCD mode, not only in the power-on vertical blank
      if (chunk / 3) % 3 != 1 {
        m.write(0xff40, 0x91, 97);
      }
      // the timer runs for the rest of the history (a third of the units: fast, slow, off)
      match chunk % 3 {
        0 => m.write(0xff07, 0x05, 97),
        1 => m.write(0xff07, 0x04, 97),
        _ => {}
      }
      // every target address of this chunk (thorough) or a sample + all region boundaries and I/O registers
      let base = chunk * 1024;
      let mut targets: Vec<u16> = Vec::new();
      if thorough {
        for i in 0..1024u32 {
          targets.push((base + i) as u16);
        }
      } else {
        for _ in 0..48 {
          targets.push((base + rng.below(1024) as u32) as u16);
        }
        for &b in [0x0000u32, 0x2000, 0x4000, 0x6000, 0x8000, 0xa000, 0xc000, 0xd000, 0xe000, 0xfe00, 0xfea0, 0xff00, 0xff80, 0xffff].iter() {
          for d in [-2i32, -1, 0, 1, 2].iter() {
            let t = (b as i32 + d).rem_euclid(0x10000) as u32;
            if t >= base && t < base + 1024 {
              targets.push(t as u16);
            }
          }
        }
        if base == 0xfc00 {
          // every I/O register, every high RAM cell and IE
          for off in 0..0x100u16 {
            targets.push(0xff00 + off);
          }
        }
      }
      for &t in targets.iter() {
        // time passes between some of the writes: device state (divider phase, scan
        // position, a running DMA transfer) differs from write to write
        if rng.chance(1, 4) {
          m.elapse(4 * (1 + rng.below(*rng.clone().pick(&[2u64, 64, 1000, 18_000])) as usize), 3);
        }
        let v1 = rng.edgy_u8();
        m.write(t, v1, if thorough { 1 } else { 1 });
        let v2 = !v1;
        m.write(t, v2, if thorough { 1 } else { 3 });
        // every fifth target also takes a 16-bit store (LD (nn),SP order or push order)
        if rng.chance(1, 5) {
          m.write_word(t, rng.u16(), rng.chance(1, 2), 3);
        }
      }
      if base == 0xfc00 {
        // device registers written at many different device phases
        for _ in 0..96 {
          // (whole machine cycles: every caller in the repository advances the devices in multiples of 4 clocks)
          m.elapse(4 * (1 + rng.below(*rng.clone().pick(&[4u64, 170, 800])) as usize), 1);
          let off = *rng.pick(&[0x07u8, 0x07, 0x06, 0x05, 0x04, 0x41, 0x45, 0x40, 0x0f, 0x00, 0x47, 0x42]);
          m.write(0xff00 + off as u16, rng.u8(), 1);
          // and the memories the LCD controller itself reads, in whatever mode it is in now
          let a = if rng.chance(1, 2) { 0xfe00 + rng.below(0xa0) as u16 } else { 0x8000 + rng.below(0x2000) as u16 };
          m.write(a, rng.u8(), 1);
        }
      }
      m.ctx.distinct_key(hash_words(&[ci as u64, chunk as u64, 1]));
      for &t in targets.iter() {
        m.ctx.distinct_key(hash_words(&[ci as u64, t as u64]));
      }
      totals.0 += m.evaluations;
      totals.1 += m.bytes_compared;
      totals.2 += m.fetch_compared;
      elapses += m.elapses;
      word_stores += m.word_stores;
      for i in 0..11 {
        by_region[i] += m.writes_by_region[i];
      }
      if m.ctx.want_sample() && chunk % 23 == 3 {
        m.ctx.sample(&format!(
          "{}: 24 random writes (bank registers, I/O, RAM), then for each target in {:04X}..{:04X}: write v, read back all 65536 addresses + fetch view; write !v, read back",
          name,
          base,
          base + 1023
        ));
      }
    }
  }
  ctx.count("evaluations", totals.0);
  ctx.count("bytes-read-back-and-compared", totals.1);
  ctx.count("fetch-view-comparisons", totals.2);
  ctx.count("elapses-followed-by-full-read-back", elapses);
  ctx.count("16-bit-stores-mirrored-as-two-byte-stores", word_stores);
  let names = ["rom0", "romN", "vram", "cartram", "wram", "echo", "oam", "unused", "io", "hram", "ie"];
  for i in 0..11 {
    ctx.count(&format!("writes-to:{}", names[i]), by_region[i]);
  }
}

pub fn on_crash(intent: &[u64], text: &str, status: &str, _err: &str) -> Option<(String, String)> {
  Some((
    format!("C10:crash:{}:{}", status.replace(' ', ""), text),
    format!("a bus access killed the process (config {} chunk {})", intent[1], intent[2]),
  ))
}
