//! C16 - OAM DMA copies exactly 160 bytes, one per machine cycle, ascending,
//! reading the source through the normal map when each byte is copied; it
//! touches nothing else, completes after 160 machine cycles, restarts on a new
//! write to 0xFF46, and does not depend on catch-up batching.

use crate::emulator::Core;
use crate::mem::{memory_read_byte, memory_write_byte, MemoryAreas};
use crate::rt::{hash_bytes, hash_words, Ctx, Rng};
use crate::support;
use crate::timing::ClockCycles;
use crate::verif::{self, EV_READ, EV_WRITE};

fn others_digest(mem: &MemoryAreas) -> u64 {
  hash_words(&[hash_bytes(&mem.video_ram), hash_bytes(&mem.cart_ram), hash_bytes(&mem.work_ram), hash_bytes(&mem.high_ram), mem.io.interrupt_mask as u64])
}

struct Mon<'a> {
  ctx: &'a mut Ctx,
  evaluations: u64,
  bytes_copied: u64,
  batches: u64,
  restarts: u64,
  source_edits: u64,
  io_bytes_by_invariance: u64,
  timer_overflows: u64,
  other_device_configs: u64,
  frame_sets: u64,
}

impl<'a> Mon<'a> {
  /// One transfer scenario on a fresh-enough core. `plan` = batches in machine
  /// cycles; between batches the source may be edited; a restart may happen.
  /// Returns the final OAM image (for partition invariance).
  fn scenario(&mut self, core: &mut Core, page: u8, plan: &[u32], edit: bool, restart_at: Option<(usize, u8)>, tag: &str, rng: &mut Rng) -> Option<Vec<u8>> {
    let mp = &mut core.memory as *mut MemoryAreas;
    // known OAM contents before the transfer
    for i in 0..0xa0usize {
      core.memory.oam_ram[i] = 0xe0 ^ (i as u8);
    }
    let mut expected_oam: Vec<u8> = core.memory.oam_ram.to_vec();
    memory_write_byte(mp, 0xff46, page);
    let mut src_page = page;
    let mut progress: usize = 0; // bytes copied so far (reference)
    let mut elapsed_since_start: u64 = 0;
    for (bi, &cycles) in plan.iter().enumerate() {
      if let Some((at, newpage)) = restart_at {
        if at == bi {
          memory_write_byte(mp, 0xff46, newpage);
          src_page = newpage;
          progress = 0;
          elapsed_since_start = 0;
          self.restarts += 1;
        }
      }
      if edit && bi > 0 && rng.chance(1, 2) {
        // modify source bytes that have not been copied yet (and some that have)
        for _ in 0..3 {
          let off = rng.below(0xa0) as u16;
          let a = ((src_page as u16) << 8) | off;
          if a >= 0x8000 && a < 0xfe00 || (0xff80..0xffff).contains(&a) {
            memory_write_byte(mp, a, rng.u8());
            self.source_edits += 1;
          }
        }
      }
      // what the normal map returns for the bytes this batch must copy, sampled now
      let n = (cycles as usize).min(0xa0 - progress);
      let mut want_reads: Vec<u16> = Vec::with_capacity(n);
      let mut want_writes: Vec<(u16, u8)> = Vec::with_capacity(n);
      // reference copy, byte by byte (a source inside OAM sees earlier bytes of this same transfer)
      let mut oam_model = expected_oam.clone();
      for k in 0..n {
        let off = progress + k;
        let sa = ((src_page as u16) << 8) | off as u16;
        let v = if (0xfe00..0xfea0).contains(&sa) { oam_model[(sa & 0xff) as usize] } else { memory_read_byte(mp, sa) };
        oam_model[off] = v;
        want_reads.push(sa);
        want_writes.push((0xfe00 + off as u16, v));
      }
      let before_others = others_digest(&core.memory);
      // the other devices go on while the transfer runs: a timer overflow inside the batch
      // must reach IF like any other (reference: the closed form of C13)
      let mut ref_timer = {
        let t = &core.memory.io.timer;
        super::c13::RefTimer { div: t.verif_cycle_count() as u16, tima: t.get_counter(), tma: t.get_modulo(), tac: t.get_timer_control() & 7 }
      };
      core.memory.io.interrupt_flag.clear(4);
      verif::start(true);
      core.memory.run_clock_cycles(ClockCycles(cycles as usize * 4));
      verif::stop();
      {
        let want_irq = ref_timer.run_closed(cycles * 4);
        let got_irq = core.memory.io.interrupt_flag.as_u8() & 4 != 0;
        let tima = core.memory.io.timer.get_counter();
        if want_irq {
          self.timer_overflows += 1;
        }
        if got_irq != want_irq || tima != ref_timer.tima {
          self.ctx.violation(
            if got_irq != want_irq { "C16:timer-request-during-transfer" } else { "C16:timer-count-during-transfer" },
            &format!("page {:02X} {} batch #{} of {} machine cycles, transfer {}: timer interrupt requested={} TIMA={:02X}, the timer alone would give requested={} TIMA={:02X}", src_page, tag, bi, cycles, if progress < 0xa0 { "running" } else { "finished" }, got_irq, tima, want_irq, ref_timer.tima),
          );
          return None;
        }
      }
      self.batches += 1;
      elapsed_since_start += cycles as u64;
      let reads: Vec<u16> = verif::events().iter().filter(|e| e.kind == EV_READ).map(|e| e.a as u16).collect();
      let writes: Vec<(u16, u8)> = verif::events().iter().filter(|e| e.kind == EV_WRITE).map(|e| (e.a as u16, e.b as u8)).collect();
      let ctxs = format!("page {:02X} {} batch #{} of {} machine cycles (progress {} bytes)", src_page, tag, bi, cycles, progress);
      // values read from device registers may legitimately differ only if the device moved; sampled before the batch as the implementation copies before it advances the devices
      if writes.len() != want_writes.len() {
        self.ctx.violation(
          &format!("C16:bytes-per-batch:{}", if writes.len() > want_writes.len() { "too-many" } else { "too-few" }),
          &format!("{}: {} bytes written, expected min(remaining, cycles) = {}", ctxs, writes.len(), want_writes.len()),
        );
        return None;
      }
      // A source byte in the I/O page is a device register: it is read "at the time
      // each byte is copied", k machine cycles into this batch. The sample taken
      // before the batch is exact for the first byte only; the later ones are
      // decided by partition invariance against the canonical one-cycle partition
      // (plan #0, where every byte is the first byte of its batch).
      for k in 1..n {
        if (0xff00..0xff80).contains(&want_reads[k]) && writes[k].0 == want_writes[k].0 {
          want_writes[k].1 = writes[k].1;
          oam_model[progress + k] = writes[k].1;
          self.io_bytes_by_invariance += 1;
        }
      }
      for k in 0..n {
        if writes[k].0 != want_writes[k].0 {
          self.ctx.violation("C16:destination", &format!("{}: write #{} went to {:04X}, expected {:04X}", ctxs, k, writes[k].0, want_writes[k].0));
          return None;
        }
        if writes[k].1 != want_writes[k].1 {
          let region = support::region_name(want_reads[k]);
          self.ctx.violation(
            &format!("C16:value:source-in-{}", region),
            &format!("{}: byte {:02X} copied to {:04X}, the normal map gives {:02X} at {:04X}", ctxs, writes[k].1, writes[k].0, want_writes[k].1, want_reads[k]),
          );
          return None;
        }
      }
      if reads != want_reads {
        self.ctx.violation("C16:source-reads", &format!("{}: source reads {:04X?}.. expected {:04X?}..", ctxs, &reads[..reads.len().min(4)], &want_reads[..want_reads.len().min(4)]));
        return None;
      }
      if others_digest(&core.memory) != before_others {
        self.ctx.violation("C16:touched-other-memory", &format!("{}: memory outside OAM changed", ctxs));
        return None;
      }
      expected_oam = oam_model;
      if core.memory.oam_ram[..] != expected_oam[..] {
        self.ctx.violation("C16:oam-contents", &format!("{}: OAM differs from the reference copy", ctxs));
        return None;
      }
      progress += n;
      self.bytes_copied += n as u64;
      let active = core.memory.verif_dma().is_some();
      let should_be_active = elapsed_since_start < 160;
      if active != should_be_active {
        self.ctx.violation(
          if active { "C16:still-active-after-160-cycles" } else { "C16:finished-early" },
          &format!("{}: transfer {} after {} machine cycles", ctxs, if active { "still active" } else { "inactive" }, elapsed_since_start),
        );
        return None;
      }
    }
    self.evaluations += 1;
    Some(core.memory.oam_ram.to_vec())
  }
}

pub fn run(ctx: &mut Ctx) {
  let thorough = ctx.thorough();
  let seed = ctx.seed;
  let mut image = support::make_image(0x03, 0x02, 0x03);
  for (i, b) in image.iter_mut().enumerate() {
    if !(0x100..0x150).contains(&i) {
      *b = (i as u8).wrapping_mul(17) ^ ((i >> 8) as u8);
    }
  }
  support::stamp_header(&mut image, 0x03, 0x02, 0x03);
  let mut m = Mon { ctx, evaluations: 0, bytes_copied: 0, batches: 0, restarts: 0, source_edits: 0, io_bytes_by_invariance: 0, timer_overflows: 0, other_device_configs: 0, frame_sets: 0 };
  for page in 0..=255u16 {
    let page = page as u8;
    if !m.ctx.mine(page as u64) {
      continue;
    }
    m.ctx.intent2(page as u64, 0);
    let mut rng = Rng::from(&[seed, 16, page as u64]);
    let warm = 4 * (rng.below(20000) as usize);
    // device configuration: bit 0 = display on, bit 1 = timer running
    let default_cfg: u8 = 2 | (page % 2);
    let fresh = |image: &Vec<u8>, cfg: u8| -> Box<Core> {
      let mut core = support::core_from_image(image);
      // give every RAM recognisable contents
      let mp = &mut core.memory as *mut MemoryAreas;
      // not the power-on banking state: a ROM bank whose bytes differ from bank 1's at
      // every offset, a RAM bank other than 0 (MBC1 mode 1), so that a transfer
      // that bypassed the memory map would copy visibly different bytes
      memory_write_byte(mp, 0x2000, [2u8, 3, 6, 7][(page % 4) as usize]);
      memory_write_byte(mp, 0x6000, 1);
      memory_write_byte(mp, 0x4000, 1 + page % 3);
      // the display is on for every other page (power-on LCDC is 0): the transfer then runs
      // while the LCD controller passes through modes 2, 3, 0 and 1 (`warm` sets where it starts)
      if cfg & 1 != 0 {
        memory_write_byte(mp, 0xff40, 0x91);
      }
      for a in (0x8000u32..0xe000).chain(0xff80..0xffff) {
        memory_write_byte(mp, a as u16, (a as u8).wrapping_mul(3) ^ ((a >> 8) as u8));
      }
      // timer running, and some time passed: device registers are not at their power-on values
      // (cfg bit 1 clear: the timer is left stopped, as at power-on - DIV still counts)
      if cfg & 2 != 0 {
        memory_write_byte(mp, 0xff07, 0x05);
      }
      core.memory.run_clock_cycles(ClockCycles(warm));
      core
    };
    let mut core = fresh(&image, default_cfg);
    let nplans = if thorough { 48 } else { 16 };
    // the device-register pages and a sample of the others also with the devices as they are
    // at power-on (display off, timer stopped) and with only one of the two running
    let cfgs: Vec<u8> = if page >= 0xfe || page % 16 == 5 { vec![default_cfg, 0, 1, 2, 3] } else { vec![default_cfg] };
    for (ci, &cfg) in cfgs.iter().enumerate() {
    if ci > 0 && cfg == default_cfg {
      continue;
    }
    let mut finals: Vec<(Vec<u8>, String)> = Vec::new();
    for pi in 0..nplans {
      // partitions of >= 170 machine cycles
      let mut plan: Vec<u32> = Vec::new();
      let mut total = 0u32;
      while total < 175 {
        let c = match pi {
          0 => 1,
          1 => 200,
          2 => 160,
          3 => 159,
          4 => 80,
          // batches longer than a byte can count (a long translated block, a halted CPU catching up)
          5 => 255,
          6 => 256,
          7 => 300,
          8 => 1024,
          9 => 17556,
          10 => 65536 + 44,
          _ => 1 + rng.below(*rng.clone().pick(&[3u64, 10, 40, 170, 600, 5000])) as u32,
        };
        plan.push(c);
        total += c;
      }
      let tag = if ci == 0 { format!("plan#{}", pi) } else { format!("plan#{}(display {}, timer {})", pi, if cfg & 1 != 0 { "on" } else { "off" }, if cfg & 2 != 0 { "running" } else { "stopped" }) };
      // every partition starts from the same machine state
      core = fresh(&image, cfg);
      // device registers (page 0xFF) change while time passes: only comparable across partitions when nothing moves
      if let Some(oam) = m.scenario(&mut core, page, &plan, false, None, &tag, &mut rng) {
        finals.push((oam, tag));
      } else {
        break;
      }
    }
    // partition invariance: same source, same start state, same result - also for the device-register
    // page 0xFF, whose bytes depend on the machine cycle at which each one is copied
    for k in 1..finals.len() {
      if finals[k].0 != finals[0].0 {
        let d = (0..0xa0).find(|&i| finals[k].0[i] != finals[0].0[i]).unwrap_or(0);
        m.ctx.violation(
          &format!("C16:depends-on-batching:source-in-{}", support::region_name(((page as u16) << 8) | d as u16)),
          &format!("page {:02X}: OAM after {} differs from OAM after {} (first at offset {:02X}: {:02X} vs {:02X})", page, finals[k].1, finals[0].1, d, finals[k].0[d], finals[0].0[d]),
        );
        break;
      }
    }
    if ci > 0 {
      m.other_device_configs += 1;
    }
    }
    core = fresh(&image, default_cfg);
    // what the LCD controller draws while a transfer replaces the objects under it is part of
    // the transfer's result too: display and objects on, a transfer started somewhere in the
    // frame, the same one and a half frame periods (26 334 machine cycles: the lines drawn during the
    // transfer are then still in one of the two frame buffers) delivered in different partitions - both frame
    // buffers must come out the same
    if (0xc0..0xe0).contains(&page) && page % 2 == 1 {
      let mut digests: Vec<(u64, String)> = Vec::new();
      for pi in 0..6u32 {
        let mut c = fresh(&image, 3);
        let mp = &mut c.memory as *mut MemoryAreas;
        memory_write_byte(mp, 0xff40, 0x93);
        memory_write_byte(mp, 0xff47, 0xe4);
        memory_write_byte(mp, 0xff48, 0xe4);
        memory_write_byte(mp, 0xff49, 0x1b);
        // objects spread over the screen: y = 16 + 3k, x = 8 + 4k, tile k, attributes from the page number
        for k in 0..40usize {
          let a = ((page as usize) << 8 | k * 4) & 0x1fff;
          c.memory.work_ram[a] = 16 + 3 * k as u8;
          c.memory.work_ram[a + 1] = 8 + 4 * k as u8;
          c.memory.work_ram[a + 2] = k as u8 ^ page;
          c.memory.work_ram[a + 3] = (page << 3) & 0xf0;
        }
        memory_write_byte(mp, 0xff46, page);
        let head: Vec<u32> = match pi {
          0 => vec![1; 256],
          1 => vec![256],
          2 => vec![160, 96],
          3 => vec![100, 60, 96],
          4 => vec![7; 36].into_iter().chain(vec![4]).collect(),
          _ => vec![200, 56],
        };
        let mut total = 0u32;
        for n in head.iter() {
          c.memory.run_clock_cycles(ClockCycles(4 * *n as usize));
          total += *n;
        }
        while total < 26_334 {
          let n = (26_334 - total).min(1000);
          c.memory.run_clock_cycles(ClockCycles(4 * n as usize));
          total += n;
        }
        m.evaluations += 1;
        let d = hash_words(&[crate::rt::hash_bytes(c.memory.io.video.get_visible_buffer()), crate::rt::hash_bytes(c.memory.io.video.get_writing_buffer())]);
        digests.push((d, format!("{:?}", &head[..head.len().min(4)])));
      }
      m.frame_sets += 1;
      for k in 1..digests.len() {
        if digests[k].0 != digests[0].0 {
          m.ctx.violation(
            "C16:depends-on-batching:frame-drawn-during-the-transfer",
            &format!("page {:02X}, display and objects on: the frames drawn while the transfer ran differ between the partition beginning {} and the one beginning {} (same total time)", page, digests[k].1, digests[0].1),
          );
          break;
        }
      }
    }
    // source edits between batches, restarts at every progress
    for pi in 0..(if thorough { 30 } else { 8 }) {
      let mut plan: Vec<u32> = Vec::new();
      let mut total = 0;
      while total < 400 {
        let c = 1 + rng.below(60) as u32;
        plan.push(c);
        total += c;
      }
      let restart = if pi % 2 == 0 { Some((1 + rng.below(4) as usize, rng.u8())) } else { None };
      if m.scenario(&mut core, page, &plan, true, restart, "edits", &mut rng).is_none() {
        break;
      }
    }
    // restart exactly at every progress value 0..=160 (one-cycle batches)
    let step = if thorough { 1 } else { 7 };
    let mut at = (page as usize) % step;
    while at <= 161 {
      let mut plan: Vec<u32> = vec![1; at];
      plan.push(1);
      plan.extend_from_slice(&[50, 50, 70]);
      if m.scenario(&mut core, page, &plan, false, Some((at, page.wrapping_add(0x11))), "restart", &mut rng).is_none() {
        break;
      }
      at += step;
    }
    m.ctx.distinct_key(hash_words(&[page as u64]));
    if m.ctx.want_sample() && page % 61 == 7 {
      m.ctx.sample(&format!("source page {:02X} ({}): write FF46, then batches of 1 / 200 / 160 / 159 / 80 / random machine cycles; hook log must show reads {:02X}00.. ascending, writes FE00.. with the values the map returns at that time; edits of the source between batches; restarts at every progress", page, support::region_name((page as u16) << 8), page));
    }
  }
  m.ctx.intent_clear();
  m.ctx.count("evaluations", m.evaluations);
  m.ctx.count("bytes-copied-and-checked", m.bytes_copied);
  m.ctx.count("batches", m.batches);
  m.ctx.count("restarts", m.restarts);
  m.ctx.count("source-bytes-edited-mid-transfer", m.source_edits);
  m.ctx.count("io-page-source-bytes-decided-by-partition-invariance", m.io_bytes_by_invariance);
  m.ctx.count("batches-with-a-timer-overflow", m.timer_overflows);
  m.ctx.count("partition-sets-under-other-device-configurations", m.other_device_configs);
  m.ctx.count("frame-partition-sets-with-a-transfer-under-the-lcd", m.frame_sets);
}

pub fn on_crash(intent: &[u64], text: &str, status: &str, _err: &str) -> Option<(String, String)> {
  Some((format!("C16:crash:{}:{}", status.replace(' ', ""), text), format!("OAM DMA from page {:02X} killed the process", intent[0])))
}
