//! C06 - interpreter control flow, instruction length, timing, block ends and
//! undefined opcodes vs the SM83 reference model.

use super::c05::Runner;
use super::opcmp::{self, Mismatch};
use crate::cpu::Registers;
use crate::decoder;
use crate::decoder::ops::Op;
use crate::gen::EDGE16;
use crate::refmodel::cpu as refcpu;
use crate::rt::{Ctx, Rng};
use crate::support;

fn is_c06_field(class: &str, m: &Mismatch) -> bool {
  let stack_or_flow = matches!(
    class,
    "PUSH" | "POP" | "CALL" | "CALL cc" | "RET" | "RET cc" | "RETI" | "RST" | "JP" | "JP cc" | "JP HL" | "JR" | "JR cc"
  );
  match m.field {
    "pc" | "cycles" | "cycles-taken" | "cycles-not-taken" | "block-end" | "status" | "panic" | "no-instruction" => true,
    "undefined-executed" | "undefined-changed-registers" | "undefined-wrote-memory" => true,
    "sp" | "bus-writes" => stack_or_flow,
    _ => false,
  }
}

/// every placement an instruction of `len` bytes can have such that all its
/// bytes are in executable memory (ROM, work RAM, high RAM)
pub fn placements(len: u16) -> Vec<(u16, &'static str)> {
  let cands: [u16; 24] = [
    0x0000, 0x0150, 0x3ffd, 0x3ffe, 0x3fff, 0x4000, 0x5555, 0x7ffd, 0x7ffe, 0x7fff, 0xc000, 0xc100, 0xcffd, 0xcffe, 0xcfff, 0xd000,
    0xdffd, 0xdffe, 0xdfff, 0xff80, 0xffa0, 0xfffc, 0xfffd, 0xfffe,
  ];
  let mut v = Vec::new();
  for &at in cands.iter() {
    let last = at as u32 + len as u32 - 1;
    // the first byte must be executable; operand bytes may lie behind the end of ROM (in
    // video RAM) or behind the end of high RAM (the IE register): they are fetched
    // through the bus like any other byte
    let ok = match at {
      0x0000..=0x7fff => last <= 0x8001,
      0xc000..=0xdfff => last <= 0xdfff,
      0xff80..=0xfffe => last <= 0xffff,
      _ => false,
    };
    if !ok {
      continue;
    }
    let straddle = (at <= 0x3fff && last >= 0x4000) || (at <= 0xcfff && last >= 0xd000) || (at <= 0x7fff && last >= 0x8000) || (at <= 0xfffe && last >= 0xffff);
    v.push((at, if straddle { "straddle" } else { "" }));
  }
  v
}

fn base_regs(fl: u8, sp: u16) -> [u32; 7] {
  [0x5a00 | ((fl as u32) << 4), 0xc410, 0xc420, 0xc430, sp as u32, 0, 0]
}

pub fn run(ctx: &mut Ctx) {
  opcmp::quiet_panics();
  let thorough = ctx.thorough();
  let seed = ctx.seed;
  let mem = super::c05::new_memory();
  let mut unit: u64 = 0;

  // ---- P1: static tables: decode() and is_block_end() for all 512 encodings
  if ctx.shard == 0 && ctx.resume.is_none() {
    let mut rows = 0;
    for first in 0..=255u16 {
      // every second byte for every first byte, and for three-byte encodings a spread of third
      // bytes that covers every page incl. 0xFFxx: what an instruction IS (length, block end,
      // cost) must not depend on its operand value
      let seconds: Vec<u8> = (0..=255u16).map(|x| x as u8).collect();
      let thirds: Vec<u8> = if refcpu::info(first as u8, 0).len == 3 { vec![0x77, 0x00, 0x40, 0x7f, 0x80, 0xc0, 0xfe, 0xff] } else { vec![0x77] };
      for &second in seconds.iter() {
       for &third in thirds.iter() {
        let bytes = [first as u8, second, third, 0x00];
        let info = refcpu::info(first as u8, second);
        let res = std::panic::catch_unwind(|| {
          let (op, len, cycles) = decoder::decode(&bytes);
          let invalid = matches!(op, Op::Invalid(_));
          (invalid, op.is_block_end(), len, cycles)
        });
        rows += 1;
        let name = if first == 0xcb { format!("CB{:02X}", second) } else { format!("{:02X}", first) };
        match res {
          Err(_) => {
            ctx.violation(&format!("C06:table:op={}:decode-panics", name), "decoder::decode panicked on a 4-byte slice");
          }
          Ok((invalid, block_end, len, cycles)) => {
            if info.undefined {
              if !invalid {
                ctx.violation(
                  &format!("C06:table:op={}:undefined-decoded-as-instruction", name),
                  "an undefined opcode decodes to a defined operation",
                );
              }
              continue;
            }
            if invalid {
              ctx.violation(&format!("C06:table:op={}:defined-decoded-as-invalid", name), "a defined opcode decodes to Invalid");
              continue;
            }
            if len != info.len as usize {
              ctx.violation(
                &format!("C06:table:op={}:length", name),
                &format!("decoder length {} but the encoding is {} bytes", len, info.len),
              );
            }
            if block_end != info.block_end {
              ctx.violation(
                &format!("C06:table:op={}:block-end", name),
                &format!("is_block_end()={} but reference says {}", block_end, info.block_end),
              );
            }
            // control-flow encodings keep part of their cost outside the
            // table (added when the branch is taken); their total is checked
            // by execution below
            if !info.block_end && (cycles % 4 != 0 || cycles / 4 != info.cycles as usize) {
              ctx.violation(
                &format!("C06:table:op={}:base-cycles", name),
                &format!("decoder clock column {} but not-taken cost is {} machine cycles", cycles, info.cycles),
              );
            }
          }
        }
       }
      }
    }
    ctx.count("table-rows", rows);
    ctx.sample("decode([op, second, third, 0x00]) for all 256 first bytes x all 256 second bytes (x 8 third bytes for three-byte encodings): length, block-end flag, base clock column vs reference table");
  }

  let mut r = Runner {
    ctx,
    mem,
    regs: Registers::new(),
    evaluations: 0,
    per_class: Default::default(),
    prop: "C06",
    filter: is_c06_field,
  };

  // ---- P2: every encoding x 16 flag states x every placement
  for first in 0..=255u16 {
    let seconds: Vec<u8> = if first == 0xcb { (0..=255u16).map(|x| x as u8).collect() } else { vec![0] };
    for &second in seconds.iter() {
      let u = unit;
      unit += 1;
      if !r.ctx.mine_sub(u) {
        continue;
      }
      let first_sub = r.ctx.first_sub(u);
      let info = refcpu::info(first as u8, second);
      let len = info.len as u16;
      let mut rng = Rng::from(&[seed, 6, first as u64, second as u64]);
      let mut sub = 0u64;
      let mut n = 0u64;
      for (at, tag) in placements(len) {
        for fl in 0..16u8 {
          sub += 1;
          if sub <= first_sub && first_sub != 0 {
            continue;
          }
          r.ctx.intent2(u, sub);
          // immediates: jump targets and displacements that stay meaningful
          let (b1, b2) = if first == 0xcb {
            (second, 0)
          } else {
            let t = *rng.pick(&EDGE16);
            match len {
              2 => (rng.edgy_u8(), 0),
              _ => (t as u8, (t >> 8) as u8),
            }
          };
          let bytes = [first as u8, b1, b2];
          let sp = if rng.chance(1, 4) { *rng.pick(&EDGE16) } else { 0xdff0 };
          let mut ri = base_regs(fl, sp);
          if first == 0xe9 {
            ri[3] = *rng.pick(&EDGE16) as u32;
          }
          let jr_wrap = if info.block_end && len == 2 && first != 0x10 {
            let t = at as i32 + 2 + (b1 as i8) as i32;
            t < 0 || t > 0xffff
          } else {
            false
          };
          let tg = if jr_wrap && tag.is_empty() { "wrap" } else { tag };
          r.case(at, &bytes[..len as usize], &ri, tg);
          n += 1;
          let region = support::region_name(at);
          let _ = region;
          r.ctx.distinct_key(crate::rt::hash_words(&[20, first as u64, second as u64, fl as u64, at as u64 >> 12]));
        }
      }
      r.ctx.count("cases:all-encodings-x-flags-x-placements", n);
      if info.undefined {
        r.ctx.count("cases:undefined-opcodes", n);
      }
      if r.ctx.want_sample() && rng.chance(1, 60) {
        r.ctx.sample(&format!(
          "encoding {:02X} {:02X} ({}) at {} placements x 16 flag nibbles, e.g. at 0x3FFF (straddling 0x4000 when longer than 1 byte)",
          first,
          second,
          refcpu::class_name(first as u8, second),
          placements(len).len()
        ));
      }
    }
  }

  // ---- P3: JR / JR cc: all 256 displacements x flags from wrap-prone positions
  for &op in [0x18u8, 0x20, 0x28, 0x30, 0x38].iter() {
    for &at in [0x0000u16, 0x0001, 0x007e, 0x3ffe, 0x4000, 0xc000, 0xdffe, 0xff80, 0xfffd].iter() {
      let u = unit;
      unit += 1;
      if !r.ctx.mine_sub(u) {
        continue;
      }
      let mut n = 0;
      for e in 0..=255u8 {
        for fl in 0..16u8 {
          r.ctx.intent2(u, e as u64);
          let t = at as i32 + 2 + (e as i8) as i32;
          let wrap = t < 0 || t > 0xffff;
          r.case(at, &[op, e], &base_regs(fl, 0xdff0), if wrap { "wrap" } else { "" });
          n += 1;
        }
        r.ctx.distinct_key(crate::rt::hash_words(&[21, op as u64, at as u64, e as u64]));
      }
      r.ctx.count("cases:jr-displacements", n);
    }
  }
  r.ctx.sample("JR/JR cc with all 256 displacements x 16 flag nibbles from 0x0000, 0x0001, 0x007E, 0x3FFE, 0x4000, 0xC000, 0xDFFE, 0xFF80, 0xFFFD (targets wrap below 0 and above 0xFFFF)");

  // ---- P4: JP / CALL targets on the boundary lattice
  for &op in [0xc3u8, 0xc2, 0xca, 0xd2, 0xda, 0xcd, 0xc4, 0xcc, 0xd4, 0xdc].iter() {
    let u = unit;
    unit += 1;
    if !r.ctx.mine_sub(u) {
      continue;
    }
    let mut n = 0;
    for &t in EDGE16.iter() {
      for fl in 0..16u8 {
        for &at in [0x0150u16, 0x3ffd, 0x4000, 0xc000, 0xff80].iter() {
          r.ctx.intent2(u, t as u64);
          r.case(at, &[op, t as u8, (t >> 8) as u8], &base_regs(fl, 0xdff0), "");
          n += 1;
        }
      }
    }
    r.ctx.distinct_key(crate::rt::hash_words(&[22, op as u64]));
    r.ctx.count("cases:jp-call-targets", n);
  }

  // ---- P5: stack instructions at every SP value (quick: every SP for the
  // unconditional forms on one flag state; thorough: x 4 flag states)
  let stack_ops: [u8; 27] = [
    0xc5, 0xd5, 0xe5, 0xf5, 0xc1, 0xd1, 0xe1, 0xf1, 0xcd, 0xc9, 0xd9, 0xc7, 0xcf, 0xd7, 0xdf, 0xe7, 0xef, 0xf7, 0xff, 0xc4, 0xcc, 0xd4,
    0xdc, 0xc0, 0xc8, 0xd0, 0xd8,
  ];
  for &op in stack_ops.iter() {
    for hi in 0..=255u16 {
      let u = unit;
      unit += 1;
      if !r.ctx.mine_sub(u) {
        continue;
      }
      let first_sub = r.ctx.first_sub(u);
      let info = refcpu::info(op, 0);
      let mut n = 0;
      for lo in 0..=255u16 {
        if (lo as u64) < first_sub {
          continue;
        }
        let sp = (hi << 8) | lo;
        r.ctx.intent2(u, lo as u64);
        let fls: &[u8] = if thorough { &[0x0, 0xf, 0x8, 0x1] } else if info.conditional { &[0x0, 0xf] } else { &[0x9] };
        for &fl in fls.iter() {
          let at = if sp >= 0xc000 && sp < 0xc200 { 0xd100 } else { 0xc100 };
          let tag = if sp < 2 || sp > 0xfffd { "sp-wrap" } else { "" };
          r.case(at, &[op, 0x34, 0x12][..info.len as usize], &base_regs(fl, sp), tag);
          n += 1;
        }
      }
      r.ctx.distinct_key(crate::rt::hash_words(&[23, op as u64, hi as u64]));
      r.ctx.count("cases:stack-ops-all-sp", n);
    }
  }
  r.ctx.sample("PUSH/POP/CALL/CALL cc/RET/RET cc/RETI/RST at every SP value 0x0000..0xFFFF (stack bytes land on ROM, VRAM, I/O, IE, and wrap at both ends)");
  // ---- P6: the same instructions through the interpreter's block runner (the path every
  // block in RAM and every block of the interpreter-only build takes): one instruction,
  // followed by a HALT where it does not end the block itself, at every placement
  {
    let mut n = 0u64;
    let mut outside = 0u64;
    for first in 0..=255u16 {
      let u = unit;
      unit += 1;
      if !r.ctx.mine_sub(u) {
        continue;
      }
      let seconds: Vec<u8> = if first == 0xcb { vec![0x06, 0x46, 0x86, 0xc6, 0x37, 0x7f] } else { vec![0] };
      let mut rng = Rng::from(&[seed, 66, first as u64]);
      for &second in seconds.iter() {
        let info = refcpu::info(first as u8, second);
        if info.undefined {
          continue;
        }
        let len = info.len as u16;
        for (at, tag) in placements(len) {
          for &fl in [0x0u8, 0xf, 0x5].iter() {
            r.ctx.intent2(u, at as u64);
            let (b1, b2) = if first == 0xcb {
              (second, 0)
            } else {
              let t = *rng.pick(&EDGE16);
              match len {
                2 => (rng.edgy_u8(), 0),
                _ => (t as u8, (t >> 8) as u8),
              }
            };
            let bytes = [first as u8, b1, b2];
            if !opcmp::place_bytes(&mut r.mem, at, &bytes[..len as usize]) {
              continue;
            }
            let next = at.wrapping_add(len);
            // (the block can only go on where the emulator can execute: ROM, work RAM, high RAM)
            let executable = next < 0x8000 || (0xc000..0xe000).contains(&next) || (0xff80..0xffff).contains(&next);
            if !info.block_end && (!executable || !opcmp::place(&mut r.mem, next, 0x76)) {
              continue;
            }
            let ri = base_regs(fl, 0xdff0);
            support::set_regs(&mut r.regs, &ri);
            r.regs.ip = at as u32;
            match opcmp::exec_block_compare(&mut r.mem, &mut r.regs) {
              None => outside += 1,
              Some(ms) => {
                n += 1;
                r.evaluations += 1;
                for m in ms.iter() {
                  let name = if first == 0xcb { format!("CB{:02X}", second) } else { format!("{:02X}", first) };
                  r.ctx.violation(
                    &format!("C06:block-runner:op={}:{}:{}{}", name, m.field, m.kind, if tag.is_empty() { String::new() } else { format!(":{}", tag) }),
                    &format!("{} at {:04X} run through interpreter::run_code_block (flags {:X}0): {} is {:X}, the model says {:X}", support::hexbytes(&bytes[..len as usize]), at, fl, m.field, m.got, m.want),
                  );
                }
              }
            }
          }
        }
      }
      r.ctx.distinct_key(crate::rt::hash_words(&[24, first as u64]));
    }
    r.ctx.count("cases:block-runner", n);
    r.ctx.count("cases:block-runner:outside-domain", outside);
    r.ctx.sample("every encoding at every placement once more through interpreter::run_code_block (the instruction, then a HALT unless it ends the block): registers, PC (wrapped to 16 bits) and cycles vs the model");
  }
  let _ = unit;
  r.ctx.count("evaluations", r.evaluations);
}

pub fn on_crash(intent: &[u64], text: &str, status: &str, _err: &str) -> Option<(String, String)> {
  Some((
    format!("C06:crash:{}:{}", status.replace(' ', ""), text),
    format!("interpreter killed the process in unit {} sub {}", intent[0], intent[1]),
  ))
}
