//! C05 - interpreter data semantics vs the SM83 reference model.

use super::opcmp::{self, Mismatch};
use crate::cpu::Registers;
use crate::gen::{EDGE16, EDGE8};
use crate::mem::MemoryAreas;
use crate::refmodel::cpu as refcpu;
use crate::rt::{Ctx, Rng};
use crate::support;

pub const CODE_AT: u16 = 0xc100;
pub const DATA_AT: u16 = 0xc200;

pub fn new_memory() -> Box<MemoryAreas> {
  // MBC1 + RAM, 2 MiB ROM, 32 KiB RAM: every bank value a guest write can
  // produce is in range, so stray pointer writes cannot leave the domain.
  let mut rom = vec![0u8; 128 * 0x4000];
  for (i, b) in rom.iter_mut().enumerate() {
    *b = ((i >> 14) as u8) ^ (i as u8).wrapping_mul(31);
  }
  support::memory_in_ram(0x03, rom, 32 * 1024)
}

/// fields that belong to C05 for this instruction class
fn is_c05_field(class: &str, m: &Mismatch) -> bool {
  let stack_or_flow = matches!(
    class,
    "PUSH" | "CALL" | "CALL cc" | "RET" | "RET cc" | "RETI" | "RST" | "JP" | "JP cc" | "JP HL" | "JR" | "JR cc"
  );
  match m.field {
    "af" | "bc" | "de" | "hl" | "f-low-nibble" => true,
    "sp" => !stack_or_flow && class != "POP",
    "bus-writes" => !stack_or_flow,
    "panic" => !stack_or_flow,
    _ => false,
  }
}

pub struct Runner<'a> {
  pub ctx: &'a mut Ctx,
  pub mem: Box<MemoryAreas>,
  pub regs: Registers,
  pub evaluations: u64,
  pub per_class: std::collections::HashMap<&'static str, u64>,
  pub prop: &'static str,
  pub filter: fn(&str, &Mismatch) -> bool,
}

impl<'a> Runner<'a> {
  /// place `bytes` at `at`, run with the given register image, compare.
  /// Returns the reference step.
  #[inline]
  pub fn case(&mut self, at: u16, bytes: &[u8], regs_in: &[u32; 7], tag: &str) -> Option<refcpu::Step> {
    if !opcmp::place_bytes(&mut self.mem, at, bytes) {
      return None;
    }
    support::set_regs(&mut self.regs, regs_in);
    self.regs.ip = at as u32;
    let out = opcmp::exec_compare(&mut self.mem, &mut self.regs);
    self.evaluations += 1;
    if !out.mismatches.is_empty() {
      self.report(at, bytes, regs_in, &out, tag);
    }
    Some(out.step)
  }

  #[cold]
  fn report(&mut self, at: u16, bytes: &[u8], regs_in: &[u32; 7], out: &opcmp::Outcome, tag: &str) {
    let class = refcpu::class_name(bytes[0], if bytes.len() > 1 { bytes[1] } else { 0 });
    let after = support::regs_tuple(&self.regs);
    for m in out.mismatches.iter() {
      if !(self.filter)(class, m) {
        continue;
      }
      let opname = if bytes[0] == 0xcb { format!("CB{:02X}", bytes[1]) } else { format!("{:02X}", bytes[0]) };
      // The signature names the failing behaviour: normally opcode + field;
      // a panic caused by where the instruction sits (fetch across a slice
      // boundary) is named by the boundary instead of by each opcode.
      let sig = if m.field == "panic" && tag == "straddle" {
        let boundary = if at < 0x8000 { "3FFF/4000" } else { "CFFF/D000" };
        format!("{}:fetch-straddle:{}:panic", self.prop, boundary)
      } else if m.kind == "range" && !tag.is_empty() {
        format!("{}:op={}:{}:{}:{}", self.prop, opname, m.field, m.kind, tag)
      } else {
        format!("{}:op={}:{}:{}", self.prop, opname, m.field, m.kind)
      };
      let detail = format!(
        "{} [{}] at {:04X} bytes [{}] in: {} | interpreter: {} | field {} got {:X} want {:X}{}",
        class,
        tag,
        at,
        support::hexbytes(bytes),
        support::fmt_regs(regs_in),
        support::fmt_regs(&after),
        m.field,
        m.got,
        m.want,
        if out.panicked { format!(" panic: {}", out.panic_msg) } else { String::new() }
      );
      self.ctx.violation(&sig, &detail);
    }
  }
}

fn regs(af: u16, bc: u16, de: u16, hl: u16, sp: u16) -> [u32; 7] {
  [af as u32, bc as u32, de as u32, hl as u32, sp as u32, 0, 0]
}

/// register image with `v` in 8-bit register index `r` (0=B..5=L,7=A; 6 = (HL) at DATA_AT)
fn with_r(mem: &mut MemoryAreas, a: u8, f: u8, r: u8, v: u8) -> [u32; 7] {
  let mut b = 0x12u8;
  let mut c = 0x34u8;
  let mut d = 0x56u8;
  let mut e = 0x78u8;
  let mut h = (DATA_AT >> 8) as u8;
  let mut l = DATA_AT as u8;
  let mut a = a;
  match r {
    0 => b = v,
    1 => c = v,
    2 => d = v,
    3 => e = v,
    4 => h = v,
    5 => l = v,
    6 => {
      opcmp::place(mem, DATA_AT, v);
    }
    _ => a = v,
  }
  regs(
    ((a as u16) << 8) | f as u16,
    ((b as u16) << 8) | c as u16,
    ((d as u16) << 8) | e as u16,
    ((h as u16) << 8) | l as u16,
    0xdff0,
  )
}

pub fn run(ctx: &mut Ctx) {
  opcmp::quiet_panics();
  let thorough = ctx.thorough();
  let seed = ctx.seed;
  let mem = new_memory();
  let mut r = Runner {
    ctx,
    mem,
    regs: Registers::new(),
    evaluations: 0,
    per_class: Default::default(),
    prop: "C05",
    filter: is_c05_field,
  };
  let mut unit: u64 = 0;
  let mut sample_rng = Rng::from(&[seed, 5]);

  // ---- U1: 8-bit ALU, register / (HL) / immediate operand: A x operand x F, exhaustive
  let mut alu_ops: Vec<u8> = (0x80u16..=0xbf).map(|x| x as u8).collect();
  alu_ops.extend_from_slice(&[0xc6, 0xce, 0xd6, 0xde, 0xe6, 0xee, 0xf6, 0xfe]);
  for &op in alu_ops.iter() {
    for a in 0..=255u8 {
      let u = unit;
      unit += 1;
      if !r.ctx.mine_sub(u) {
        continue;
      }
      let first = r.ctx.first_sub(u);
      let z = op & 7;
      let imm = op >= 0xc0;
      let operands: u16 = if !imm && z == 7 { 1 } else { 256 };
      let mut n = 0u64;
      for v in 0..operands {
        for fl in 0..16u8 {
          let sub = (v as u64) * 16 + fl as u64;
          if sub < first {
            continue;
          }
          r.ctx.intent2(u, sub);
          let f = fl << 4;
          if imm {
            let ri = regs(((a as u16) << 8) | f as u16, 0x1234, 0x5678, 0x9abc, 0xdff0);
            r.case(CODE_AT, &[op, v as u8], &ri, "");
          } else {
            let val = if z == 7 { a } else { v as u8 };
            let ri = with_r(&mut r.mem, a, f, z, val);
            r.case(CODE_AT, &[op], &ri, "");
          }
          n += 1;
        }
      }
      r.ctx.count("cases:alu8", n);
      for fl in 0..16u64 {
        r.ctx.distinct_key(crate::rt::hash_words(&[1, op as u64, a as u64, fl]));
      }
      if r.ctx.want_sample() && sample_rng.chance(1, 300) {
        r.ctx.sample(&format!("op {:02X} ({}) with A={:02X}, all 256 operands x 16 flag nibbles vs reference", op, refcpu::class_name(op, 0), a));
      }
    }
  }

  // ---- U2: INC/DEC r, accumulator rotates, DAA, CPL, SCF, CCF: value x F
  let mut unary: Vec<u8> = Vec::new();
  for y in 0..8u8 {
    unary.push(0x04 | (y << 3));
    unary.push(0x05 | (y << 3));
    unary.push(0x07 | (y << 3));
  }
  for &op in unary.iter() {
    let u = unit;
    unit += 1;
    if !r.ctx.mine_sub(u) {
      continue;
    }
    let first = r.ctx.first_sub(u);
    let z = op & 7;
    let y = (op >> 3) & 7;
    let mut n = 0;
    for v in 0..=255u8 {
      for fl in 0..16u8 {
        let sub = (v as u64) * 16 + fl as u64;
        if sub < first {
          continue;
        }
        r.ctx.intent2(u, sub);
        let f = fl << 4;
        let ri = if z == 7 { with_r(&mut r.mem, v, f, 7, v) } else { with_r(&mut r.mem, 0x5a, f, y, v) };
        r.case(CODE_AT, &[op], &ri, "");
        n += 1;
        r.ctx.distinct_key(crate::rt::hash_words(&[2, op as u64, v as u64, fl as u64]));
      }
    }
    r.ctx.count("cases:unary8", n);
    if r.ctx.want_sample() && sample_rng.chance(1, 4) {
      r.ctx.sample(&format!("op {:02X} ({}) over all 256 values x 16 flag nibbles", op, refcpu::class_name(op, 0)));
    }
  }

  // ---- U3: all 256 CB encodings: value x F
  for cb in 0..=255u8 {
    let u = unit;
    unit += 1;
    if !r.ctx.mine_sub(u) {
      continue;
    }
    let first = r.ctx.first_sub(u);
    let z = cb & 7;
    let mut n = 0;
    for v in 0..=255u8 {
      for fl in 0..16u8 {
        let sub = (v as u64) * 16 + fl as u64;
        if sub < first {
          continue;
        }
        r.ctx.intent2(u, sub);
        let ri = with_r(&mut r.mem, if z == 7 { v } else { 0xa5 }, fl << 4, z, v);
        r.case(CODE_AT, &[0xcb, cb], &ri, "");
        n += 1;
      }
    }
    for fl in 0..16u64 {
      r.ctx.distinct_key(crate::rt::hash_words(&[3, cb as u64, fl]));
    }
    r.ctx.count("cases:cb", n);
  }

  // ---- U4: INC/DEC rr over all 2^16 values (flags must not change)
  for p in 0..4u8 {
    for q in 0..2u8 {
      let op = 0x03 | (p << 4) | (q << 3);
      for hi in 0..=255u16 {
        let u = unit;
        unit += 1;
        if !r.ctx.mine_sub(u) {
          continue;
        }
        let first = r.ctx.first_sub(u);
        let mut n = 0;
        for lo in 0..=255u16 {
          let v = (hi << 8) | lo;
          for fl in [0u8, 0xf0, 0x50, 0xa0].iter() {
            let sub = (lo as u64) * 4 + (*fl as u64 >> 6);
            if sub < first {
              continue;
            }
            r.ctx.intent2(u, sub);
            let mut ri = regs(0x7700 | *fl as u16, 0x1111, 0x2222, 0x3333, 0x4444);
            ri[1 + p as usize] = v as u32;
            r.case(CODE_AT, &[op], &ri, if v == 0xffff || v == 0 { "wrap" } else { "" });
            n += 1;
          }
        }
        r.ctx.distinct_key(crate::rt::hash_words(&[4, op as u64, hi as u64]));
        r.ctx.count("cases:incdec16", n);
      }
    }
  }

  // ---- U5: ADD HL,rr
  for p in 0..4u8 {
    let op = 0x09 | (p << 4);
    // lattice x lattice x 16 flags
    for (i, &hl) in EDGE16.iter().enumerate() {
      let u = unit;
      unit += 1;
      if !r.ctx.mine_sub(u) {
        continue;
      }
      let mut n = 0;
      for &v in EDGE16.iter() {
        for fl in 0..16u8 {
          r.ctx.intent2(u, 0);
          let mut ri = regs(0x3300 | ((fl as u16) << 4), 0x1111, 0x2222, hl, 0x4444);
          if p != 2 {
            ri[if p == 3 { 4 } else { 1 + p as usize }] = v as u32;
          }
          r.case(CODE_AT, &[op], &ri, "");
          n += 1;
        }
      }
      r.ctx.distinct_key(crate::rt::hash_words(&[5, op as u64, i as u64]));
      r.ctx.count("cases:addhl-lattice", n);
    }
    // random pairs (quick) or a full 2^32 sweep for BC, 2^16 for HL,HL (thorough)
    if p == 2 {
      for hi in 0..=255u16 {
        let u = unit;
        unit += 1;
        if !r.ctx.mine_sub(u) {
          continue;
        }
        for lo in 0..=255u16 {
          for fl in [0x00u8, 0xf0].iter() {
            r.ctx.intent2(u, 0);
            let ri = regs(0x3300 | *fl as u16, 0x1111, 0x2222, (hi << 8) | lo, 0x4444);
            r.case(CODE_AT, &[op], &ri, "");
          }
        }
        r.ctx.count("cases:addhl-hlhl", 512);
      }
      continue;
    }
    let full = thorough && p == 0;
    for hi in 0..=255u16 {
      let u = unit;
      unit += 1;
      if !r.ctx.mine_sub(u) {
        continue;
      }
      let mut rng = Rng::from(&[seed, 55, op as u64, hi as u64]);
      let mut n = 0u64;
      if full {
        for lo in 0..=255u16 {
          let hl = (hi << 8) | lo;
          let fl = ((hl >> 3) as u8) & 0xf0;
          r.ctx.intent2(u, lo as u64);
          for v in 0..=65535u16 {
            let mut ri = regs(0x3300 | fl as u16, 0x1111, 0x2222, hl, 0x4444);
            ri[1] = v as u32;
            r.case(CODE_AT, &[op], &ri, "");
          }
          n += 65536;
        }
      } else {
        let k = if thorough { 65536 } else { 2048 };
        for _ in 0..k {
          let hl = (hi << 8) | (rng.u8() as u16);
          let v = rng.u16();
          let fl = rng.u8() & 0xf0;
          r.ctx.intent2(u, 0);
          let mut ri = regs(0x3300 | fl as u16, 0x1111, 0x2222, hl, 0x4444);
          ri[if p == 3 { 4 } else { 1 + p as usize }] = v as u32;
          r.case(CODE_AT, &[op], &ri, "");
          n += 1;
        }
      }
      r.ctx.distinct_key(crate::rt::hash_words(&[6, op as u64, hi as u64]));
      r.ctx.count(if full { "cases:addhl-full-2^32" } else { "cases:addhl-random" }, n);
    }
  }

  // ---- U6: ADD SP,e8 and LD HL,SP+e8: all SP x all e8
  for &op in [0xe8u8, 0xf8].iter() {
    for hi in 0..=255u16 {
      let u = unit;
      unit += 1;
      if !r.ctx.mine_sub(u) {
        continue;
      }
      let first = r.ctx.first_sub(u);
      let mut n = 0u64;
      for lo in 0..=255u16 {
        if (lo as u64) < first {
          continue;
        }
        r.ctx.intent2(u, lo as u64);
        let sp = (hi << 8) | lo;
        for e in 0..=255u8 {
          let fl = if e & 1 == 0 { 0xf0 } else { 0x00 };
          let ri = regs(0x4200 | fl, 0x1111, 0x2222, 0x3333, sp);
          r.case(CODE_AT, &[op, e], &ri, "");
          n += 1;
        }
      }
      r.ctx.distinct_key(crate::rt::hash_words(&[7, op as u64, hi as u64]));
      r.ctx.count("cases:sp-offset", n);
    }
  }

  // ---- U7: loads and moves; pointer forms over every 16-bit pointer value
  // LD r,r' / LD r,(HL) / LD (HL),r (0x40..0x7f without HALT) over edge values
  for op in 0x40u8..=0x7f {
    if op == 0x76 {
      continue;
    }
    let u = unit;
    unit += 1;
    if !r.ctx.mine_sub(u) {
      continue;
    }
    let z = op & 7;
    let mut n = 0;
    for &v in EDGE8.iter() {
      for fl in [0x00u8, 0xf0].iter() {
        r.ctx.intent2(u, 0);
        let ri = with_r(&mut r.mem, 0xa7, *fl, z, v);
        r.case(CODE_AT, &[op], &ri, "");
        n += 1;
      }
    }
    r.ctx.distinct_key(crate::rt::hash_words(&[8, op as u64]));
    r.ctx.count("cases:ld-r-r", n);
  }
  // LD r,d8 / LD (HL),d8: all immediates
  for y in 0..8u8 {
    let op = 0x06 | (y << 3);
    let u = unit;
    unit += 1;
    if !r.ctx.mine_sub(u) {
      continue;
    }
    for v in 0..=255u8 {
      r.ctx.intent2(u, v as u64);
      let ri = with_r(&mut r.mem, 0x11, 0xf0, 7, 0x11);
      r.case(CODE_AT, &[op, v], &ri, "");
    }
    r.ctx.distinct_key(crate::rt::hash_words(&[9, op as u64]));
    r.ctx.count("cases:ld-r-d8", 256);
  }
  // LD rr,d16 and LD SP,HL: all 16-bit values
  for p in 0..5u8 {
    for hi in 0..=255u16 {
      let u = unit;
      unit += 1;
      if !r.ctx.mine_sub(u) {
        continue;
      }
      for lo in 0..=255u16 {
        let v = (hi << 8) | lo;
        r.ctx.intent2(u, lo as u64);
        if p < 4 {
          let ri = regs(0x0100, 0x1111, 0x2222, 0x3333, 0x4444);
          r.case(CODE_AT, &[0x01 | (p << 4), v as u8, (v >> 8) as u8], &ri, "");
        } else {
          let ri = regs(0x0100, 0x1111, 0x2222, v, 0x4444);
          r.case(CODE_AT, &[0xf9], &ri, "");
        }
      }
      r.ctx.distinct_key(crate::rt::hash_words(&[10, p as u64, hi as u64]));
      r.ctx.count("cases:ld16", 256);
    }
  }
  // pointer forms: every pointer value
  // (op, which register pair holds the pointer: 1=BC 2=DE 3=HL 9=imm16 10=imm8 11=C)
  let ptr_ops: [(u8, u8); 21] = [
    (0x02, 1),
    (0x12, 2),
    (0x22, 3),
    (0x32, 3),
    (0x0a, 1),
    (0x1a, 2),
    (0x2a, 3),
    (0x3a, 3),
    (0x36, 3),
    (0x34, 3),
    (0x35, 3),
    (0x77, 3),
    (0x7e, 3),
    (0x86, 3),
    (0xea, 9),
    (0xfa, 9),
    (0x08, 9),
    (0xe0, 10),
    (0xf0, 10),
    (0xe2, 11),
    (0xf2, 11),
  ];
  for &(op, kind) in ptr_ops.iter() {
    let his: u16 = if kind >= 10 { 1 } else { 256 };
    for hi in 0..his {
      let u = unit;
      unit += 1;
      if !r.ctx.mine_sub(u) {
        continue;
      }
      let first = r.ctx.first_sub(u);
      let mut rng = Rng::from(&[seed, 77, op as u64, hi as u64]);
      let mut n = 0;
      for lo in 0..=255u16 {
        if (lo as u64) < first {
          continue;
        }
        let ptr = (hi << 8) | lo;
        r.ctx.intent(&[u, lo as u64, op as u64, ptr as u64]);
        let a = rng.edgy_u8();
        let fl = rng.u8() & 0xf0;
        let mut ri = regs(((a as u16) << 8) | fl as u16, 0x1111, 0x2222, 0x3333, rng.u16());
        let mut bytes: Vec<u8> = vec![op];
        match kind {
          1 => ri[1] = ptr as u32,
          2 => ri[2] = ptr as u32,
          3 => ri[3] = ptr as u32,
          9 => {
            bytes.push(ptr as u8);
            bytes.push((ptr >> 8) as u8);
          }
          10 => bytes.push(lo as u8),
          _ => ri[1] = 0x5500 | lo as u32,
        }
        if op == 0x36 {
          bytes.push(rng.edgy_u8());
        }
        let wraps = (op == 0x22 || op == 0x2a) && ptr == 0xffff || (op == 0x32 || op == 0x3a) && ptr == 0;
        r.case(CODE_AT, &bytes, &ri, if wraps { "wrap" } else { "" });
        n += 1;
      }
      r.ctx.distinct_key(crate::rt::hash_words(&[11, op as u64, hi as u64]));
      r.ctx.count("cases:pointer-forms", n);
      if r.ctx.want_sample() && sample_rng.chance(1, 500) {
        r.ctx.sample(&format!("op {:02X} ({}) with pointer {:02X}00..{:02X}FF, random A/F", op, refcpu::class_name(op, 0), hi, hi));
      }
    }
  }
  // POP rr: every SP value, stack bytes random; POP AF: every low byte (F masking)
  for p in 0..4u8 {
    let op = 0xc1 | (p << 4);
    for hi in 0..=255u16 {
      let u = unit;
      unit += 1;
      if !r.ctx.mine_sub(u) {
        continue;
      }
      let mut n = 0;
      for lo in 0..=255u16 {
        let sp = (hi << 8) | lo;
        r.ctx.intent2(u, lo as u64);
        let ri = regs(0xff00, 0x1111, 0x2222, 0x3333, sp);
        r.case(CODE_AT, &[op], &ri, "");
        n += 1;
      }
      r.ctx.distinct_key(crate::rt::hash_words(&[12, op as u64, hi as u64]));
      r.ctx.count("cases:pop", n);
    }
  }
  {
    // POP AF with the stack in WRAM holding every (low, high) combination on a lattice
    let u = unit;
    unit += 1;
    if r.ctx.mine_sub(u) {
      for lo in 0..=255u8 {
        for &hi in EDGE8.iter() {
          r.ctx.intent2(u, lo as u64);
          opcmp::place(&mut r.mem, 0xc300, lo);
          opcmp::place(&mut r.mem, 0xc301, hi);
          let ri = regs(0x0000, 0x1111, 0x2222, 0x3333, 0xc300);
          r.case(CODE_AT, &[0xf1], &ri, "");
        }
      }
      r.ctx.count("cases:pop-af-mask", 256 * EDGE8.len() as u64);
      r.ctx.sample("POP AF with stack bytes (lo, hi) for all 256 lo values: F must come back as lo & 0xF0");
    }
  }
  let _ = unit;
  r.ctx.count("evaluations", r.evaluations);
}

pub fn on_crash(intent: &[u64], text: &str, status: &str, _err: &str) -> Option<(String, String)> {
  // A crash while a case is in flight: attribute it to that case; `text` is
  // the location of the panic that led to the abort, if any.
  Some((
    format!("C05:crash:{}:{}", status.replace(' ', ""), text),
    format!(
      "interpreter killed the process in unit {} sub {} (opcode {:02X}, pointer/operand {:04X})",
      intent[0], intent[1], intent[2], intent[3]
    ),
  ))
}
