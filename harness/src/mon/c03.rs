//! C03 - cache transparency. Same engine as C04 (see c04.rs) on bank-switch
//! heavy programs, plus the cache invariant monitor and the cold-cache core.

use crate::rt::Ctx;

pub fn run(ctx: &mut Ctx) {
  ctx.args.insert("kind".to_string(), "c03".to_string());
  super::c04::run(ctx);
}

pub fn on_crash(intent: &[u64], text: &str, status: &str, _err: &str) -> Option<(String, String)> {
  Some((
    format!("C03:crash:{}:{}", status.replace(' ', ""), text),
    format!("the emulator killed the process: program #{} step {} block at {:04X}", intent[0], intent[1], intent[2]),
  ))
}
