//! C15 - the frame presented at VBlank equals the reference composition of
//! background, window and objects (registers, VRAM and OAM constant over the frame).

use crate::devices::video::VideoState;
use crate::rt::{hash_words, Ctx, Rng};
use crate::timing::ClockCycles;

pub const SHADES: [u8; 4] = [255, 170, 85, 0];

pub struct Scene {
  pub vram: Vec<u8>,
  pub oam: Vec<u8>,
  pub lcdc: u8,
  pub scx: u8,
  pub scy: u8,
  pub wx: u8,
  pub wy: u8,
  pub bgp: u8,
  pub obp0: u8,
  pub obp1: u8,
}

fn tile_pixel(vram: &[u8], lcdc: u8, tile: u8, px: usize, py: usize) -> u8 {
  let addr = if lcdc & 0x10 != 0 { (tile as usize) * 16 } else { (0x1000i32 + (tile as i8 as i32) * 16) as usize };
  let lo = vram[addr + py * 2];
  let hi = vram[addr + py * 2 + 1];
  let bit = 7 - px;
  (((hi >> bit) & 1) << 1) | ((lo >> bit) & 1)
}

/// which layer produced the pixel: 0 background, 1 window, 2 object
pub fn reference(s: &Scene) -> (Vec<u8>, Vec<u8>) {
  let mut out = vec![0u8; 160 * 144];
  let mut layer = vec![0u8; 160 * 144];
  let height: i32 = if s.lcdc & 4 != 0 { 16 } else { 8 };
  for y in 0..144usize {
    // object selection: first ten in OAM order that cover this line
    let mut sel: Vec<usize> = Vec::new();
    if s.lcdc & 2 != 0 {
      for i in 0..40 {
        let oy = s.oam[i * 4] as i32 - 16;
        if (y as i32) >= oy && (y as i32) < oy + height {
          sel.push(i);
          if sel.len() == 10 {
            break;
          }
        }
      }
    }
    // drawing priority: lowest X, then lowest OAM index
    sel.sort_by_key(|&i| (s.oam[i * 4 + 1], i));
    for x in 0..160usize {
      // background / window colour index
      let mut ci;
      let mut lay = 0u8;
      let win = s.lcdc & 0x20 != 0 && y >= s.wy as usize && x + 7 >= s.wx as usize;
      if win {
        let wxp = x + 7 - s.wx as usize;
        let wyp = y - s.wy as usize;
        let base = if s.lcdc & 0x40 != 0 { 0x1c00 } else { 0x1800 };
        let tile = s.vram[base + (wyp / 8) * 32 + (wxp / 8) % 32];
        ci = tile_pixel(&s.vram, s.lcdc, tile, wxp % 8, wyp % 8);
        lay = 1;
      } else {
        let px = (x + s.scx as usize) & 255;
        let py = (y + s.scy as usize) & 255;
        let base = if s.lcdc & 0x08 != 0 { 0x1c00 } else { 0x1800 };
        let tile = s.vram[base + (py / 8) * 32 + px / 8];
        ci = tile_pixel(&s.vram, s.lcdc, tile, px % 8, py % 8);
      }
      let mut shade = SHADES[((s.bgp >> (2 * ci)) & 3) as usize];
      // objects
      for &i in sel.iter() {
        let ox = s.oam[i * 4 + 1] as i32 - 8;
        let sx = x as i32 - ox;
        if sx < 0 || sx >= 8 {
          continue;
        }
        let oy = s.oam[i * 4] as i32 - 16;
        let attr = s.oam[i * 4 + 3];
        let mut row = y as i32 - oy;
        if attr & 0x40 != 0 {
          row = height - 1 - row;
        }
        let col = if attr & 0x20 != 0 { 7 - sx } else { sx };
        let mut tile = s.oam[i * 4 + 2];
        if height == 16 {
          tile = if row >= 8 { tile | 1 } else { tile & 0xfe };
          row &= 7;
        }
        let addr = (tile as usize) * 16 + (row as usize) * 2;
        let lo = s.vram[addr];
        let hi = s.vram[addr + 1];
        let bit = 7 - col;
        let oc = (((hi >> bit) & 1) << 1) | ((lo >> bit) & 1);
        if oc == 0 {
          continue;
        }
        // the first opaque pixel in priority order decides
        if attr & 0x80 != 0 && ci != 0 {
          // behind non-zero background
        } else {
          let pal = if attr & 0x10 != 0 { s.obp1 } else { s.obp0 };
          shade = SHADES[((pal >> (2 * oc)) & 3) as usize];
          lay = 2;
        }
        break;
      }
      let _ = &mut ci;
      out[y * 160 + x] = shade;
      layer[y * 160 + x] = lay;
    }
  }
  (out, layer)
}

/// one frame, delivered 4 clocks at a time or - with `batches` - in random batches of
/// 4..1200 clocks (what is presented must not depend on how time is delivered: a
/// translated block or a halted CPU catches the LCD up by hundreds of clocks at once)
fn one_frame(v: &mut VideoState, vram: &Box<[u8]>, oam: &Box<[u8]>, mut batches: Option<&mut Rng>) -> Result<(), String> {
  let mut clocks = 0u64;
  loop {
    let n: usize = match batches.as_mut() {
      Some(r) => 4 * (1 + r.below(*r.clone().pick(&[1u64, 8, 30, 120, 300])) as usize),
      None => 4,
    };
    let f = v.run_clock_cycles(ClockCycles(n), vram, oam).as_u8();
    clocks += n as u64;
    if f & 1 != 0 {
      return Ok(());
    }
    if clocks > 3 * 70224 {
      return Err("no VBlank request within three frame periods".to_string());
    }
  }
}

/// Frame 1 shows `a`; during the vertical blank that follows, the scene is
/// changed into `b` - only the registers whose value differs are rewritten,
/// as a guest would - and frame 2 is returned. Whatever the renderer carries
/// from one frame (or line) into the next must not show.
pub fn render_then(a: &Scene, b: &Scene, rng: &mut Rng, batched: bool, lcd_cycle: bool) -> Result<Vec<u8>, String> {
  let mut v = VideoState::new();
  v.set_lcd_control(a.lcdc);
  v.set_scroll_x(a.scx);
  v.set_scroll_y(a.scy);
  v.set_window_x(a.wx);
  v.set_window_y(a.wy);
  v.set_bgp(a.bgp);
  v.set_obj_palette(0, a.obp0);
  v.set_obj_palette(1, a.obp1);
  let vram = a.vram.clone().into_boxed_slice();
  let oam = a.oam.clone().into_boxed_slice();
  one_frame(&mut v, &vram, &oam, if batched { Some(&mut *rng) } else { None })?;
  if lcd_cycle {
    // the display is switched off for a moment and on again, all inside vertical blank: the
    // frame that follows is a full frame like any other
    v.set_lcd_control(a.lcdc & 0x7f);
    let _ = v.run_clock_cycles(ClockCycles(4 * (1 + rng.below(200) as usize)), &vram, &oam);
    v.set_lcd_control(b.lcdc);
  }
  if b.lcdc != a.lcdc {
    v.set_lcd_control(b.lcdc);
  }
  if b.scx != a.scx {
    v.set_scroll_x(b.scx);
  }
  if b.scy != a.scy {
    v.set_scroll_y(b.scy);
  }
  if b.wx != a.wx {
    v.set_window_x(b.wx);
  }
  if b.wy != a.wy {
    v.set_window_y(b.wy);
  }
  if b.bgp != a.bgp {
    v.set_bgp(b.bgp);
  }
  if b.obp0 != a.obp0 {
    v.set_obj_palette(0, b.obp0);
  }
  if b.obp1 != a.obp1 {
    v.set_obj_palette(1, b.obp1);
  }
  let vram = b.vram.clone().into_boxed_slice();
  let oam = b.oam.clone().into_boxed_slice();
  one_frame(&mut v, &vram, &oam, if batched { Some(&mut *rng) } else { None })?;
  Ok(v.get_visible_buffer().to_vec())
}

/// a scene that differs from `a` in one respect, the way consecutive frames of a game do
pub fn followup_scene(rng: &mut Rng, a: &Scene, idx: u64) -> (Scene, &'static str) {
  let mut b = Scene { vram: a.vram.clone(), oam: a.oam.clone(), lcdc: a.lcdc, scx: a.scx, scy: a.scy, wx: a.wx, wy: a.wy, bgp: a.bgp, obp0: a.obp0, obp1: a.obp1 };
  let kind = match idx % 9 {
    7 | 8 => {
      // every tile redrawn in place and the picture moved by less than a tile: the first
      // fetches of the new frame ask for tile rows the previous frame ended on
      for t in 0..384usize {
        if rng.chance(3, 4) {
          for r in 0..16 {
            b.vram[t * 16 + r] = rng.u8();
          }
        }
      }
      if idx % 9 == 7 {
        b.scy = a.scy.wrapping_add(7);
      } else {
        b.wy = a.wy.wrapping_add(7);
        b.scy = a.scy.wrapping_add(rng.below(8) as u8);
      }
      "tiles-redrawn-and-moved"
    }
    0 => {
      // tile data redrawn in place: same tile numbers, new pixels
      for _ in 0..(1 + rng.below(40)) {
        let t = rng.below(384) as usize;
        for r in 0..16 {
          b.vram[t * 16 + r] = rng.u8();
        }
      }
      "tile-data-rewritten"
    }
    1 => {
      // vertical scroll or window position moved by less than a tile
      if rng.chance(1, 2) {
        b.scy = a.scy.wrapping_add(1 + rng.below(7) as u8);
      } else {
        b.wy = a.wy.wrapping_add(1 + rng.below(7) as u8);
      }
      "scy-or-wy-moved"
    }
    2 => {
      b.scx = a.scx.wrapping_add(1 + rng.below(15) as u8);
      b.wx = a.wx.wrapping_add(rng.below(9) as u8);
      "scx-wx-moved"
    }
    3 => {
      // tile maps rewritten
      for _ in 0..(1 + rng.below(200)) {
        let i = 0x1800 + rng.below(0x800) as usize;
        b.vram[i] = rng.u8();
      }
      "tile-map-rewritten"
    }
    4 => {
      // objects move, change tile or attributes
      for _ in 0..(1 + rng.below(20)) {
        let k = rng.below(40) as usize;
        match rng.below(4) {
          0 => b.oam[k * 4] = b.oam[k * 4].wrapping_add(rng.below(5) as u8).wrapping_sub(2),
          1 => b.oam[k * 4 + 1] = b.oam[k * 4 + 1].wrapping_add(rng.below(5) as u8).wrapping_sub(2),
          2 => b.oam[k * 4 + 2] = rng.u8(),
          _ => b.oam[k * 4 + 3] = rng.u8() & 0xf0,
        }
      }
      "objects-changed"
    }
    5 => {
      b.bgp = rng.u8();
      b.obp0 = rng.u8();
      b.obp1 = rng.u8();
      // one LCDC bit toggled (not the LCD or BG enable)
      b.lcdc = a.lcdc ^ (1 << (1 + rng.below(6)));
      "palettes-and-one-lcdc-bit"
    }
    _ => {
      // a different scene altogether on the same controller
      let s = random_scene(rng, idx ^ 0x5555);
      return (s, "new-scene");
    }
  };
  (b, kind)
}

pub fn render(s: &Scene) -> Result<Vec<u8>, String> {
  let mut v = VideoState::new();
  v.set_lcd_control(s.lcdc);
  v.set_scroll_x(s.scx);
  v.set_scroll_y(s.scy);
  v.set_window_x(s.wx);
  v.set_window_y(s.wy);
  v.set_bgp(s.bgp);
  v.set_obj_palette(0, s.obp0);
  v.set_obj_palette(1, s.obp1);
  let vram = s.vram.clone().into_boxed_slice();
  let oam = s.oam.clone().into_boxed_slice();
  // from the first clock of vertical blank: one full frame until the next VBlank request
  let mut clocks = 0u64;
  loop {
    let f = v.run_clock_cycles(ClockCycles(4), &vram, &oam).as_u8();
    clocks += 4;
    if f & 1 != 0 {
      break;
    }
    if clocks > 3 * 70224 {
      return Err("no VBlank request within three frame periods".to_string());
    }
  }
  Ok(v.get_visible_buffer().to_vec())
}

/// The same frame through the whole memory bus: registers written by bus stores, time
/// delivered to `MemoryAreas::run_clock_cycles`, and OAM transfers started during the frame
/// from a work-RAM page that holds a byte-for-byte copy of OAM - nothing the frame is
/// composed from changes, so the presented frame must still be the reference composition.
#[cfg(not(miri))]
pub fn render_on_bus(s: &Scene, rng: &mut Rng, transfers: usize) -> Result<(Vec<u8>, usize), String> {
  use crate::mem::memory_write_byte;
  let mut mem = crate::support::memory_in_ram(0x00, vec![0u8; 0x8000], 0);
  let mp = &mut *mem as *mut crate::mem::MemoryAreas;
  mem.video_ram = s.vram.clone().into_boxed_slice();
  mem.oam_ram = s.oam.clone().into_boxed_slice();
  for (i, b) in s.oam.iter().enumerate() {
    mem.work_ram[0x100 + i] = *b;
  }
  for (reg, v) in [(0xff40u16, s.lcdc), (0xff43, s.scx), (0xff42, s.scy), (0xff4b, s.wx), (0xff4a, s.wy), (0xff47, s.bgp), (0xff48, s.obp0), (0xff49, s.obp1)].iter() {
    memory_write_byte(mp, *reg, *v);
  }
  memory_write_byte(mp, 0xff0f, 0);
  let mut starts: Vec<u64> = (0..transfers).map(|_| 4 * rng.below(65664 / 4)).collect();
  starts.sort();
  let mut clocks = 0u64;
  let mut started = 0usize;
  loop {
    while started < starts.len() && starts[started] <= clocks {
      memory_write_byte(mp, 0xff46, 0xc1);
      started += 1;
    }
    let n = 4 * (1 + rng.below(*rng.clone().pick(&[1u64, 1, 8, 40])) as usize);
    mem.run_clock_cycles(ClockCycles(n));
    clocks += n as u64;
    if mem.io.interrupt_flag.as_u8() & 1 != 0 {
      break;
    }
    if clocks > 3 * 70224 {
      return Err("no VBlank request within three frame periods".to_string());
    }
  }
  if mem.oam_ram[..] != s.oam[..] {
    return Err("the transfers from a byte-identical page changed OAM".to_string());
  }
  Ok((mem.io.video.get_visible_buffer().to_vec(), started))
}

pub fn random_scene(rng: &mut Rng, idx: u64) -> Scene {
  let mut vram = vec![0u8; 0x2000];
  // tile data: mixture of random and sparse rows so that transparency occurs
  for t in 0..384usize {
    let style = rng.below(4);
    for r in 0..8 {
      let (lo, hi) = match style {
        0 => (rng.u8(), rng.u8()),
        1 => (rng.u8() & rng.u8(), rng.u8() & rng.u8()),
        2 => (if r % 2 == 0 { 0xff } else { 0 }, rng.u8()),
        _ => (0, 0),
      };
      vram[t * 16 + r * 2] = lo;
      vram[t * 16 + r * 2 + 1] = hi;
    }
  }
  // tile maps: random, or - as on real screens - large areas showing the same few tiles
  // (consecutive fetches then ask for the same tile row again and again)
  match rng.below(4) {
    0 => {
      let few: Vec<u8> = (0..(1 + rng.below(4))).map(|_| rng.u8()).collect();
      for i in 0x1800..0x2000 {
        vram[i] = *rng.pick(&few);
      }
    }
    1 => {
      for row in 0..64usize {
        let t = rng.u8();
        for c in 0..32usize {
          vram[0x1800 + row * 32 + c] = if rng.chance(1, 16) { rng.u8() } else { t };
        }
      }
    }
    _ => {
      for i in 0x1800..0x2000 {
        vram[i] = rng.u8();
      }
    }
  }
  let mut oam = vec![0u8; 0xa0];
  let cluster_y = 16 + rng.below(144) as i32;
  let cluster_x = 8 + rng.below(160) as i32;
  for i in 0..40 {
    let (y, x) = match rng.below(6) {
      0 | 1 => (cluster_y + rng.below(20) as i32 - 10, cluster_x + rng.below(24) as i32 - 12),
      2 => (cluster_y, cluster_x), // equal X ties
      3 => (rng.below(170) as i32, *rng.pick(&[0i32, 1, 7, 8, 9, 159, 160, 166, 167, 168, 200, 255])),
      4 => (*rng.pick(&[0i32, 1, 8, 9, 15, 16, 17, 143, 144, 152, 159, 160, 200]), rng.below(176) as i32),
      _ => (rng.below(256) as i32, rng.below(256) as i32),
    };
    oam[i * 4] = y.rem_euclid(256) as u8;
    oam[i * 4 + 1] = x.rem_euclid(256) as u8;
    oam[i * 4 + 2] = rng.u8();
    oam[i * 4 + 3] = rng.u8() & 0xf0;
  }
  // all 64 combinations of LCDC bits 1-6 (LCD and BG on), decorrelated from the sharding of idx
  let lcdc = 0x81 | ((((idx * 37 + idx / 16) % 64) as u8) << 1);
  let wx = match rng.below(6) {
    0 => rng.below(7) as u8,
    1 => 7,
    2 => 8 + rng.below(158) as u8,
    3 => 166,
    4 => 167 + rng.below(80) as u8,
    _ => rng.u8(),
  };
  let wy = match rng.below(4) {
    0 => 0,
    1 => rng.below(144) as u8,
    2 => 143,
    _ => 144 + rng.below(100) as u8,
  };
  Scene { vram, oam, lcdc, scx: rng.edgy_u8(), scy: rng.edgy_u8(), wx, wy, bgp: rng.u8(), obp0: rng.u8(), obp1: rng.u8() }
}

pub fn run(ctx: &mut Ctx) {
  let thorough = ctx.thorough();
  let seed = ctx.seed;
  let n: u64 = if thorough { 20_000 } else { 1_920 };
  let mut evaluations = 0u64;
  let mut pixels = 0u64;
  let mut with_window = 0u64;
  let mut with_objects = 0u64;
  let mut tall_objects = 0u64;
  let mut over10 = 0u64;
  let mut obj_pixels = 0u64;
  let mut win_pixels = 0u64;
  let mut second_frames = 0u64;
  let mut batched_runs = 0u64;
  let mut lcd_cycles = 0u64;
  #[allow(unused_mut)]
  let mut bus_frames = 0u64;
  #[allow(unused_mut)]
  let mut bus_transfers = 0u64;
  for i in 0..n {
    if !ctx.mine(i) {
      continue;
    }
    ctx.intent2(i, 0);
    let mut rng = Rng::from(&[seed, 15, i]);
    let s = random_scene(&mut rng, i);
    evaluations += 1;
    let (want, layer) = reference(&s);
    let got = match render(&s) {
      Ok(g) => g,
      Err(e) => {
        ctx.violation("C15:no-frame", &e);
        continue;
      }
    };
    pixels += 160 * 144;
    let wn = layer.iter().filter(|l| **l == 1).count() as u64;
    let on = layer.iter().filter(|l| **l == 2).count() as u64;
    win_pixels += wn;
    obj_pixels += on;
    if wn > 0 {
      with_window += 1;
    }
    if on > 0 {
      with_objects += 1;
    }
    if s.lcdc & 4 != 0 && on > 0 {
      tall_objects += 1;
    }
    // a line with more than ten candidate objects?
    if s.lcdc & 2 != 0 {
      let h: i32 = if s.lcdc & 4 != 0 { 16 } else { 8 };
      'l: for y in 0..144i32 {
        let mut c = 0;
        for k in 0..40 {
          let oy = s.oam[k * 4] as i32 - 16;
          if y >= oy && y < oy + h {
            c += 1;
          }
        }
        if c > 10 {
          over10 += 1;
          break 'l;
        }
      }
    }
    if got.len() != want.len() {
      ctx.violation("C15:frame-size", &format!("frame has {} pixels", got.len()));
      continue;
    }
    if let Some(p) = (0..want.len()).find(|&p| got[p] != want[p]) {
      let (x, y) = (p % 160, p / 160);
      let lay = ["background", "window", "object"][layer[p] as usize];
      // classify: does the mismatch sit under an 8x16 object with an odd tile index?
      let mut tall_odd = false;
      if s.lcdc & 4 != 0 && s.lcdc & 2 != 0 {
        for k in 0..40 {
          let oy = s.oam[k * 4] as i32 - 16;
          let ox = s.oam[k * 4 + 1] as i32 - 8;
          if (y as i32) >= oy && (y as i32) < oy + 16 && (x as i32) >= ox && (x as i32) < ox + 8 && s.oam[k * 4 + 2] & 1 == 1 {
            tall_odd = true;
          }
        }
      }
      let class = if tall_odd { "under-8x16-object-with-odd-tile-index".to_string() } else { format!("layer={}", lay) };
      let nbad = (0..want.len()).filter(|&p| got[p] != want[p]).count();
      ctx.violation(
        &format!("C15:pixel:{}", class),
        &format!(
          "scene #{} (seed {}) LCDC={:02X} SCX={} SCY={} WX={} WY={} BGP={:02X} OBP0={:02X} OBP1={:02X}: first differing pixel ({}, {}): presented {} reference {} (reference layer: {}); {} pixels differ",
          i, seed, s.lcdc, s.scx, s.scy, s.wx, s.wy, s.bgp, s.obp0, s.obp1, x, y, got[p], want[p], lay, nbad
        ),
      );
    }
    // ---- the same scene through the memory bus, with OAM transfers (from a byte-identical
    // page) in progress during the frame
    #[cfg(not(miri))]
    if i % 4 == 1 {
      let transfers = (i / 4 % 4) as usize;
      match render_on_bus(&s, &mut rng, transfers) {
        Ok((got3, started)) => {
          bus_frames += 1;
          bus_transfers += started as u64;
          pixels += 160 * 144;
          if let Some(p) = (0..want.len().min(got3.len())).find(|&p| got3[p] != want[p]) {
            let (x, y) = (p % 160, p / 160);
            let nbad = (0..want.len().min(got3.len())).filter(|&p| got3[p] != want[p]).count();
            ctx.violation(
              &format!("C15:bus{}:layer={}", if started > 0 { ":transfer-in-progress" } else { "" }, ["background", "window", "object"][layer[p] as usize]),
              &format!(
                "scene #{} (seed {}) rendered through the memory bus with {} OAM transfer(s) from a byte-identical page during the frame: first differing pixel ({}, {}): presented {} reference {}; {} pixels differ",
                i, seed, started, x, y, got3[p], want[p], nbad
              ),
            );
          }
        }
        Err(e) => {
          ctx.violation("C15:bus:no-frame", &e);
        }
      }
    }
    // ---- a second frame on the same controller, after the scene was changed during vertical blank
    if thorough || i % 2 == 0 {
      let (s2, kind) = followup_scene(&mut rng, &s, i / 2);
      let (want2, layer2) = reference(&s2);
      // two thirds of the second-frame runs deliver time in random batches instead of 4 clocks at a time
      let batched = i % 3 != 0;
      if batched {
        batched_runs += 1;
      }
      let lcd_cycle = i % 5 == 2;
      if lcd_cycle {
        lcd_cycles += 1;
      }
      match render_then(&s, &s2, &mut rng, batched, lcd_cycle) {
        Ok(got2) => {
          second_frames += 1;
          pixels += 160 * 144;
          if got2.len() != want2.len() {
            ctx.violation("C15:frame-size", &format!("second frame has {} pixels", got2.len()));
          } else if let Some(p) = (0..want2.len()).find(|&p| got2[p] != want2[p]) {
            let (x, y) = (p % 160, p / 160);
            let nbad = (0..want2.len()).filter(|&p| got2[p] != want2[p]).count();
            ctx.violation(
              &format!("C15:second-frame:{}:layer={}", kind, ["background", "window", "object"][layer2[p] as usize]),
              &format!(
                "scene #{} (seed {}) shown for one frame, then changed during vertical blank ({}): LCDC={:02X}->{:02X} SCX={}->{} SCY={}->{} WX={}->{} WY={}->{}: first differing pixel of the second frame ({}, {}): presented {} reference {}; {} pixels differ",
                i, seed, kind, s.lcdc, s2.lcdc, s.scx, s2.scx, s.scy, s2.scy, s.wx, s2.wx, s.wy, s2.wy, x, y, got2[p], want2[p], nbad
              ),
            );
          }
        }
        Err(e) => {
          ctx.violation("C15:no-frame", &e);
        }
      }
    }
    ctx.distinct_key(hash_words(&[i, seed]));
    if ctx.want_sample() && i % 211 == 3 {
      ctx.sample(&format!("scene #{}: LCDC={:02X} SCX={} SCY={} WX={} WY={} palettes {:02X}/{:02X}/{:02X}, random tile data and maps, 40 clustered objects; whole 160x144 frame vs reference ({} window pixels, {} object pixels)", i, s.lcdc, s.scx, s.scy, s.wx, s.wy, s.bgp, s.obp0, s.obp1, wn, on));
    }
  }
  ctx.count("evaluations", evaluations);
  ctx.count("pixels-compared", pixels);
  ctx.count("scenes-with-window-pixels", with_window);
  ctx.count("scenes-with-object-pixels", with_objects);
  ctx.count("scenes-with-8x16-object-pixels", tall_objects);
  ctx.count("scenes-with-more-than-10-objects-on-a-line", over10);
  ctx.count("second-frames-after-a-change-in-vblank", second_frames);
  ctx.count("two-frame-runs-with-time-delivered-in-random-batches", batched_runs);
  ctx.count("two-frame-runs-with-the-display-switched-off-and-on-in-between", lcd_cycles);
  ctx.count("frames-through-the-memory-bus", bus_frames);
  ctx.count("oam-transfers-during-those-frames", bus_transfers);
  ctx.count("reference-window-pixels", win_pixels);
  ctx.count("reference-object-pixels", obj_pixels);
}

pub fn on_crash(intent: &[u64], text: &str, status: &str, _err: &str) -> Option<(String, String)> {
  Some((format!("C15:crash:{}:{}", status.replace(' ', ""), text), format!("rendering scene #{} killed the process", intent[0])))
}
