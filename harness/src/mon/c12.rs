//! C12 - MBC1 / MBC3 bank selection protocol. Every ROM bank carries its own
//! index in its first two bytes and every cartridge RAM bank is pre-filled
//! with its index, so the visible banks are read off the bus and compared
//! with a reference controller model over the complete transition relation.

use crate::mem::{memory_read_byte, memory_write_byte, MemoryAreas};
use crate::rt::{hash_words, Ctx, Rng};
use crate::support;

#[derive(Clone, Copy, Debug, PartialEq, Eq)]
pub struct Mbc1 {
  pub lo: u8,
  pub hi: u8,
  pub mode: bool,
}

fn visible_rom_bank(mp: *mut MemoryAreas) -> usize {
  (memory_read_byte(mp, 0x4000) as usize) | ((memory_read_byte(mp, 0x4001) as usize) << 8)
}

fn low_rom_bank(mp: *mut MemoryAreas) -> usize {
  // bank 0 has no index bytes of its own (offset 0 holds bank index 0 by construction)
  (memory_read_byte(mp, 0x0000) as usize) | ((memory_read_byte(mp, 0x0001) as usize) << 8)
}

fn visible_ram_bank(mp: *mut MemoryAreas) -> usize {
  memory_read_byte(mp, 0xa000) as usize
}

pub fn run(ctx: &mut Ctx) {
  let thorough = ctx.thorough();
  let seed = ctx.seed;
  let mut unit = 0u64;
  let mut transitions = 0u64;
  let mut states_seen = std::collections::HashSet::<u64>::new();
  let mut accept_mode1_upper = 0u64;
  let mut configs = 0u64;
  let mut power_on_checks = 0u64;
  for &ct in super::c11::TYPES.iter() {
    for (ri, &rc) in super::c11::ROM_CODES.iter().enumerate() {
      for (rai, &rac) in super::c11::RAM_CODES.iter().enumerate() {
        let u = unit;
        unit += 1;
        if !thorough && !(rai == 0 || rai == 2 || rai == 3 || rai == 5 || ri % 3 == 0) {
          continue;
        }
        if !ctx.mine(u) {
          continue;
        }
        let cfg = ((ct as u64) << 16) | ((rc as u64) << 8) | rac as u64;
        ctx.intent(&[u, cfg]);
        let path = super::c11::sparse_rom(ct, rc, rac);
        let mut core = match support::core_from_file(&path) {
          Ok(c) => c,
          Err(_) => {
            let _ = std::fs::remove_file(&path);
            continue;
          }
        };
        let _ = std::fs::remove_file(&path);
        configs += 1;
        let banks = support::rom_banks_for_code(rc);
        let ram_bytes = support::ram_bytes_for_code(rac);
        let ram_banks = ram_bytes / 0x2000;
        for k in 0..ram_banks {
          for i in 0..0x2000usize {
            core.memory.cart_ram[k * 0x2000 + i] = k as u8;
          }
        }
        if ram_bytes > 0 && ram_banks == 0 {
          for b in core.memory.cart_ram.iter_mut() {
            *b = 0;
          }
        }
        let mp = &mut core.memory as *mut MemoryAreas;
        let name = match ct {
          0x00 => "rom-only",
          0x01..=0x03 => "mbc1",
          _ => "mbc3",
        };
        let mut report = |ctx: &mut Ctx, what: &str, detail: String| {
          ctx.violation(&format!("C12:{}:{}", name, what), &format!("type {:02X}, {} ROM banks, {} bytes RAM: {}", ct, banks, ram_bytes, detail));
        };
        let mut rng = Rng::from(&[seed, 12, cfg]);
        // ---- the empty sequence and sequences that leave registers at their power-on
        // values: every register starts at 0 (the low ROM register reads as bank 1)
        if name != "rom-only" {
          let check = |ctx: &mut Ctx, after: &str, rom: usize, rom_alt: usize, ram: usize| {
            let got = visible_rom_bank(mp);
            if got != rom % banks && got != rom_alt % banks {
              ctx.violation(&format!("C12:{}:power-on:rom-bank", name), &format!("type {:02X}, {} ROM banks, {} bytes RAM: {}: the window shows bank {}, protocol gives {}", ct, banks, ram_bytes, after, got, rom % banks));
            }
            if low_rom_bank(mp) != 0 {
              ctx.violation(&format!("C12:{}:power-on:low-window-not-bank0", name), &format!("type {:02X}, {} ROM banks: {}: 0x0000 shows bank {}", ct, banks, after, low_rom_bank(mp)));
            }
            if ram_banks > 0 && visible_ram_bank(mp) != ram % ram_banks {
              ctx.violation(&format!("C12:{}:power-on:ram-bank", name), &format!("type {:02X}, {} bytes RAM: {}: RAM window shows bank {}, protocol gives {}", ct, ram_bytes, after, visible_ram_bank(mp), ram % ram_banks));
            }
          };
          check(ctx, "no write at all", 1, 1, 0);
          memory_write_byte(mp, 0x0000, 0x0a);
          check(ctx, "only RAM enable written", 1, 1, 0);
          if name == "mbc1" {
            // mode 1 with the upper register never written: it is still 0
            memory_write_byte(mp, 0x6000, 0x01);
            check(ctx, "only mode <- 1 written (upper register at its power-on value)", 1, 1, 0);
            memory_write_byte(mp, 0x6000, 0x00);
            check(ctx, "mode <- 1, mode <- 0 written", 1, 1, 0);
            memory_write_byte(mp, 0x2000, 0x05);
            check(ctx, "low register <- 5 written (upper register at its power-on value)", 5, 5, 0);
            memory_write_byte(mp, 0x6000, 0x01);
            check(ctx, "low register <- 5, mode <- 1 written (upper register at its power-on value)", 5, 5, 0);
            memory_write_byte(mp, 0x6000, 0x00);
          } else {
            memory_write_byte(mp, 0x2000, 0x05);
            check(ctx, "only ROM bank <- 5 written (RAM bank register at its power-on value)", 5, 5, 0);
          }
          transitions += 8;
          power_on_checks += 1;
        }
        match name {
          "rom-only" => {
            // every (area, value): nothing may change
            for area in 0..4u16 {
              for v in 0..=255u16 {
                let a = area * 0x2000 + rng.below(0x2000) as u16;
                ctx.intent(&[u, cfg, a as u64, v as u64]);
                memory_write_byte(mp, a, v as u8);
                transitions += 1;
                if visible_rom_bank(mp) != 1 % banks.max(1) && visible_rom_bank(mp) != 1 {
                  report(ctx, "write-honoured", format!("after write {:04X}={:02X} the switchable window shows bank {}", a, v, visible_rom_bank(mp)));
                }
                if low_rom_bank(mp) != 0 {
                  report(ctx, "low-window-not-bank0", format!("after write {:04X}={:02X} 0x0000 shows bank {}", a, v, low_rom_bank(mp)));
                }
                if ram_banks > 0 && visible_ram_bank(mp) != 0 {
                  report(ctx, "ram-bank-changed", format!("after write {:04X}={:02X} cartridge RAM shows bank {}", a, v, visible_ram_bank(mp)));
                }
              }
            }
            states_seen.insert(hash_words(&[cfg, 0]));
          }
          "mbc1" => {
            // complete transition relation: from every register state, every (area, value)
            let values: Vec<u8> = if thorough { (0..=255u16).map(|x| x as u8).collect() } else { (0..=255u16).step_by(3).map(|x| x as u8).chain([0x1f, 0x20, 0x3f, 0x40, 0x60, 0x80, 0xe0, 0xff, 0x01, 0x02].iter().cloned()).collect() };
            for lo in 0..32u8 {
              for hi in 0..4u8 {
                for mode in 0..2u8 {
                  for area in 1..4u16 {
                    for &v in values.iter() {
                      // enter the state
                      memory_write_byte(mp, 0x2000 + (lo as u16) * 7, lo | 0xe0);
                      memory_write_byte(mp, 0x4000 + (hi as u16) * 11, hi | 0xfc);
                      memory_write_byte(mp, 0x6000 + (mode as u16) * 13, mode | 0xfe);
                      let mut st = Mbc1 { lo, hi, mode: mode == 1 };
                      // the transition
                      let a = area * 0x2000 + (((v as u16) * 31) & 0x1fff);
                      ctx.intent(&[u, cfg, a as u64, v as u64, lo as u64, hi as u64, mode as u64]);
                      memory_write_byte(mp, a, v);
                      match area {
                        1 => st.lo = v & 0x1f,
                        2 => st.hi = v & 3,
                        _ => st.mode = v & 1 == 1,
                      }
                      transitions += 1;
                      let lo_eff = if st.lo == 0 { 1 } else { st.lo } as usize;
                      let full = (((st.hi as usize) << 5) | lo_eff) % banks;
                      let low_only = lo_eff % banks;
                      let got = visible_rom_bank(mp);
                      let ok = if st.mode { got == low_only || got == full } else { got == full };
                      if ok && st.mode && got != low_only {
                        accept_mode1_upper += 1;
                      }
                      if !ok {
                        let what = if st.lo == 0 {
                          "rom-bank:low-register-0-not-translated-to-1"
                        } else if st.mode {
                          "rom-bank:mode1"
                        } else {
                          "rom-bank:mode0"
                        };
                        report(
                          ctx,
                          what,
                          format!(
                            "registers low={:02X} high={} mode={} (after write {:04X}={:02X}): window shows bank {}, protocol gives {}{}",
                            st.lo,
                            st.hi,
                            st.mode as u8,
                            a,
                            v,
                            got,
                            full,
                            if st.mode { format!(" (or {} with the low register only)", low_only) } else { String::new() }
                          ),
                        );
                      }
                      if low_rom_bank(mp) != 0 {
                        report(ctx, "low-window-not-bank0", format!("low={:02X} high={} mode={}: 0x0000 shows bank {}", st.lo, st.hi, st.mode as u8, low_rom_bank(mp)));
                      }
                      if ram_banks > 0 {
                        let want = if st.mode { st.hi as usize % ram_banks } else { 0 };
                        let gotr = visible_ram_bank(mp);
                        if gotr != want {
                          report(ctx, if st.mode { "ram-bank:mode1" } else { "ram-bank:mode0" }, format!("low={:02X} high={} mode={}: RAM window shows bank {}, protocol gives {}", st.lo, st.hi, st.mode as u8, gotr, want));
                        }
                      }
                      states_seen.insert(hash_words(&[cfg, st.lo as u64, st.hi as u64, st.mode as u64]));
                    }
                  }
                }
              }
            }
            // RAM-enable area writes (0x0000-0x1FFF) must not move any bank
            for v in 0..=255u16 {
              let before = (visible_rom_bank(mp), if ram_banks > 0 { visible_ram_bank(mp) } else { 0 });
              memory_write_byte(mp, (v * 29) & 0x1fff, v as u8);
              transitions += 1;
              let after = (visible_rom_bank(mp), if ram_banks > 0 { visible_ram_bank(mp) } else { 0 });
              if before != after {
                report(ctx, "ram-enable-write-moved-a-bank", format!("write {:04X}={:02X}: banks {:?} -> {:?}", (v * 29) & 0x1fff, v, before, after));
              }
            }
          }
          _ => {
            // MBC3: state = (rom register 7 bits, ram register); all (area, value) from a lattice of states
            let mut ram_reg: Option<u8> = Some(0);
            for rom_reg in 0..128u8 {
              for area in 1..4u16 {
                let values: Vec<u8> = if thorough || rom_reg % 8 == 0 { (0..=255u16).map(|x| x as u8).collect() } else { vec![0x00, 0x01, 0x03, 0x04, 0x08, 0x0c, 0x7f, 0x80, 0x81, 0xff, rom_reg] };
                for &v in values.iter() {
                  memory_write_byte(mp, 0x2000 + (rom_reg as u16) * 3, rom_reg | 0x80);
                  let mut romr = rom_reg & 0x7f;
                  let a = area * 0x2000 + (((v as u16) * 37) & 0x1fff);
                  ctx.intent(&[u, cfg, a as u64, v as u64, rom_reg as u64]);
                  memory_write_byte(mp, a, v);
                  match area {
                    1 => romr = v & 0x7f,
                    2 => {
                      if v < 4 {
                        ram_reg = Some(v);
                      } else {
                        // RTC register select (0x08-0x0C) and unused values: what the
                        // RAM window shows is unspecified until a RAM bank is selected again
                        ram_reg = None;
                      }
                    }
                    _ => {}
                  }
                  transitions += 1;
                  let want = (if romr == 0 { 1 } else { romr } as usize) % banks;
                  let got = visible_rom_bank(mp);
                  if got != want {
                    report(
                      ctx,
                      if romr == 0 { "rom-bank:register-0-not-translated-to-1" } else { "rom-bank" },
                      format!("rom register {:02X} (after write {:04X}={:02X}): window shows bank {}, protocol gives {}", romr, a, v, got, want),
                    );
                  }
                  if low_rom_bank(mp) != 0 {
                    report(ctx, "low-window-not-bank0", format!("rom register {:02X}: 0x0000 shows bank {}", romr, low_rom_bank(mp)));
                  }
                  if ram_banks > 0 {
                    if let Some(rr) = ram_reg {
                      let wantr = rr as usize % ram_banks;
                      let gotr = visible_ram_bank(mp);
                      if gotr != wantr {
                        report(ctx, "ram-bank", format!("ram register {:02X}: RAM window shows bank {}, protocol gives {}", rr, gotr, wantr));
                      }
                    }
                  }
                  states_seen.insert(hash_words(&[cfg, romr as u64, ram_reg.map(|x| x as u64).unwrap_or(99)]));
                }
              }
            }
          }
        }
        // random long history against the same model (MBC1 / MBC3)
        if name != "rom-only" {
          let mut lo = 0u8;
          let mut hi = 0u8;
          let mut mode = false;
          let mut romr = 0u8;
          let mut ramr: Option<u8> = Some(0);
          // known start: write all registers
          memory_write_byte(mp, 0x2000, 0);
          memory_write_byte(mp, 0x4000, 0);
          memory_write_byte(mp, 0x6000, 0);
          for _ in 0..(if thorough { 20000 } else { 3000 }) {
            let a = rng.below(0x8000) as u16;
            let v = rng.edgy_u8();
            ctx.intent(&[u, cfg, a as u64, v as u64, 77]);
            memory_write_byte(mp, a, v);
            transitions += 1;
            match a >> 13 {
              1 => {
                lo = v & 0x1f;
                romr = v & 0x7f;
              }
              2 => {
                hi = v & 3;
                ramr = if v < 4 { Some(v) } else { None };
              }
              3 => mode = v & 1 == 1,
              _ => {}
            }
            let got = visible_rom_bank(mp);
            let ok = if name == "mbc1" {
              let lo_eff = if lo == 0 { 1 } else { lo } as usize;
              let full = (((hi as usize) << 5) | lo_eff) % banks;
              got == full || (mode && got == lo_eff % banks)
            } else {
              got == (if romr == 0 { 1 } else { romr } as usize) % banks
            };
            if !ok {
              report(ctx, "rom-bank:random-history", format!("after write {:04X}={:02X} window shows bank {} (registers low={:02X} high={} mode={} / rom={:02X})", a, v, got, lo, hi, mode as u8, romr));
              break;
            }
            if ram_banks > 0 {
              let want = if name == "mbc1" { Some(if mode { hi as usize % ram_banks } else { 0 }) } else { ramr.map(|r| r as usize % ram_banks) };
              if let Some(w) = want {
                if visible_ram_bank(mp) != w {
                  report(ctx, "ram-bank:random-history", format!("after write {:04X}={:02X} RAM window shows bank {}, protocol gives {}", a, v, visible_ram_bank(mp), w));
                  break;
                }
              }
            }
          }
        }
        ctx.distinct_key(hash_words(&[cfg]));
        if ctx.want_sample() && u % 17 == 3 {
          ctx.sample(&format!("type {:02X}, {} ROM banks, {} RAM banks: from every register state, every (area, value) write; visible banks read from index bytes at 0x4000/0x0000/0xA000", ct, banks, ram_banks));
        }
      }
    }
  }
  ctx.intent_clear();
  for s in states_seen.iter() {
    ctx.distinct_key(*s);
  }
  ctx.count("evaluations", transitions);
  ctx.count("configurations", configs);
  ctx.count("configurations-checked-from-power-on", power_on_checks);
  ctx.count("register-states-reached(this worker)", states_seen.len() as u64);
  ctx.count("accept-set:mbc1-mode1-upper-bits-applied", accept_mode1_upper);
}

pub fn on_crash(intent: &[u64], text: &str, status: &str, _err: &str) -> Option<(String, String)> {
  let cfg = intent[1];
  Some((
    format!("C12:crash:{}:{}", status.replace(' ', ""), text),
    format!("type {:02X} rom code {:02X} ram code {:02X}: after write {:04X}={:02X} a read of the bank windows killed the process (bank not reduced to the cartridge's size)", (cfg >> 16) as u8, (cfg >> 8) as u8, cfg as u8, intent[2], intent[3]),
  ))
}
