//! C20 - debugger command parsing is total, case- and whitespace-insensitive,
//! parses every 16-bit address in decimal and 0x-hex exactly, rejects malformed
//! and out-of-range numbers; disassembly tiles instruction sequences exactly.

use crate::debug::command::{parse_address, parse_command, Command};
use crate::debug::disassembly::disassemble;
use crate::decoder;
use crate::refmodel::cpu as refcpu;
use crate::rt::{hash_words, Ctx, Rng};

fn guarded<T, F: FnOnce() -> T + std::panic::UnwindSafe>(f: F) -> Result<T, String> {
  unsafe {
    crate::rt::EXPECT_PANIC = true;
  }
  let r = std::panic::catch_unwind(f);
  unsafe {
    crate::rt::EXPECT_PANIC = false;
  }
  r.map_err(|e| {
    if let Some(s) = e.downcast_ref::<String>() {
      s.clone()
    } else if let Some(s) = e.downcast_ref::<&str>() {
      s.to_string()
    } else {
      "panic".to_string()
    }
  })
}

fn case_patterns(word: &str) -> Vec<String> {
  let chars: Vec<char> = word.chars().collect();
  let n = chars.len();
  let mut v = Vec::with_capacity(1 << n);
  for m in 0..(1u32 << n) {
    let mut s = String::with_capacity(n);
    for (i, c) in chars.iter().enumerate() {
      if m & (1 << i) != 0 {
        s.push(c.to_ascii_uppercase());
      } else {
        s.push(*c);
      }
    }
    v.push(s);
  }
  v
}

const SPACES: [&str; 8] = [" ", "  ", "\t", " \t ", "\u{00a0}", "\u{2003}", "\u{3000}", "\r\n"];

pub fn run(ctx: &mut Ctx) {
  let thorough = ctx.thorough();
  let seed = ctx.seed;
  let mut evaluations = 0u64;
  let mut addresses = 0u64;
  let mut rejected = 0u64;
  let mut commands = 0u64;
  let mut unicode_lines = 0u64;
  let mut tilings = 0u64;
  let mut long_sequences = 0u64;
  let mut unit = 0u64;

  // ---- (1) every 16-bit address in every notation
  for hi in 0..256u32 {
    let u = unit;
    unit += 1;
    if !ctx.mine(u) {
      continue;
    }
    ctx.intent2(u, 1);
    for lo in 0..256u32 {
      let v = (hi << 8) | lo;
      let spellings = [
        format!("{}", v),
        format!("{:05}", v),
        format!("{:09}", v),
        format!("0x{:x}", v),
        format!("0x{:X}", v),
        format!("0x{:04x}", v),
        format!("0x{:04X}", v),
        format!("0x{:08x}", v),
        format!(" {} ", v),
        format!("\t0x{:x}\n", v),
        format!("\u{3000}{}\u{00a0}", v),
      ];
      for s in spellings.iter() {
        evaluations += 1;
        addresses += 1;
        let s2 = s.clone();
        match guarded(move || parse_address(&s2)) {
          Err(e) => {
            ctx.violation("C20:parse_address:panic", &format!("parse_address({:?}) panicked: {}", s, e));
          }
          Ok(got) => {
            if got != Some(v as u16) {
              let kind = if s.trim().starts_with("0x") { "hex" } else { "decimal" };
              ctx.violation(&format!("C20:parse_address:{}:wrong-value", kind), &format!("parse_address({:?}) = {:?}, expected Some({})", s, got, v));
            }
          }
        }
      }
      // the same addresses inside commands
      if lo % 16 == (hi % 16) {
        for (cmd, mk) in [("break", 0u8), ("p", 1), ("print", 1)].iter() {
          let line = format!("{} 0x{:X}", cmd, v);
          let want = if *mk == 0 { Command::BreakSet(v as u16) } else { Command::ReadMemory(v as u16) };
          evaluations += 1;
          let l2 = line.clone();
          match guarded(move || parse_command(&l2)) {
            Ok(got) => {
              if got != Some(want) {
                ctx.violation(&format!("C20:parse_command:{}:address", cmd), &format!("parse_command({:?}) = {:?}, expected {:?}", line, got, want));
              }
            }
            Err(e) => {
              ctx.violation("C20:parse_command:panic", &format!("parse_command({:?}) panicked: {}", line, e));
            }
          }
        }
      }
    }
    ctx.distinct_key(hash_words(&[1, hi as u64]));
  }
  ctx.sample("parse_address over all 65536 values spelled as decimal (plain, zero padded), 0x-hex with lower/upper digits and padding, with ASCII and Unicode whitespace around; and inside 'break'/'p'/'print' commands");

  // ---- (2) out-of-range and malformed numbers must be rejected
  {
    let u = unit;
    unit += 1;
    if ctx.mine(u) {
      ctx.intent2(u, 2);
      let mut bad: Vec<String> = Vec::new();
      for v in 65536u64..66600 {
        bad.push(format!("{}", v));
        bad.push(format!("0x{:x}", v));
      }
      for s in [
        "", " ", "0x", "0xg", "0x1g", "12a", "a12", "1 2", "0x 12", "-1", "-0x1", "0x-1", "１２", "0x１２", "1e3", "1.0", "0b101", "0o17", "$1234", "1234h", "0x0x12", "99999999999999999999",
        "0xFFFFFFFFFFFFFFFFFFFF", "४२", "0x٤", "1_000", "0x1_0", "\u{0}", "0x\u{0}", "١٢٣", "0xé", "é", "0é", "0x𝟙",
      ]
      .iter()
      {
        bad.push(s.to_string());
      }
      for s in bad.iter() {
        evaluations += 1;
        rejected += 1;
        let s2 = s.clone();
        match guarded(move || parse_address(&s2)) {
          Err(e) => {
            ctx.violation("C20:parse_address:panic", &format!("parse_address({:?}) panicked: {}", s, e));
          }
          Ok(Some(v)) => {
            ctx.violation("C20:parse_address:accepted-malformed-or-out-of-range", &format!("parse_address({:?}) = Some({})", s, v));
          }
          Ok(None) => {}
        }
      }
      ctx.distinct_key(hash_words(&[2]));
      ctx.sample("parse_address on 65536..66599 in both notations and a list of malformed spellings (\"0x\", \"0X10\", \"12a\", \"-1\", full-width and Arabic-Indic digits, \"1_000\", NUL ...) must return None");
    }
  }

  // ---- (3) command words in every letter-case pattern, with whitespace decorations
  let words: [(&str, Option<&str>, u8); 9] = [
    ("break", Some("0x1234"), 0),
    ("c", None, 1),
    ("continue", None, 1),
    ("info", Some("reg"), 2),
    ("info", Some("registers"), 2),
    ("p", Some("4660"), 3),
    ("print", Some("0x1234"), 3),
    ("s", None, 4),
    ("step", None, 4),
  ];
  for (wi, (word, arg, kind)) in words.iter().enumerate() {
    let u = unit;
    unit += 1;
    if !ctx.mine(u) {
      continue;
    }
    ctx.intent2(u, 3);
    let want = match kind {
      0 => Command::BreakSet(0x1234),
      1 => Command::Continue,
      2 => Command::ReadRegisters,
      3 => Command::ReadMemory(0x1234),
      _ => Command::Step,
    };
    let mut rng = Rng::from(&[seed, 20, wi as u64]);
    let second_patterns: Vec<String> = match (kind, arg) {
      (2, Some(a)) => case_patterns(a),
      (_, Some(a)) => vec![a.to_string()],
      _ => vec![String::new()],
    };
    for w in case_patterns(word).iter() {
      for (ai, a) in second_patterns.iter().enumerate() {
        // every case pattern of the first word with a sample of patterns of the second
        if second_patterns.len() > 8 && !(ai % 7 == (w.len() + wi) % 7) && !thorough {
          continue;
        }
        let lead = if rng.chance(1, 2) { *rng.pick(&SPACES) } else { "" };
        let mid = *rng.pick(&SPACES);
        let trail = if rng.chance(1, 2) { *rng.pick(&SPACES) } else { "" };
        let line = if a.is_empty() { format!("{}{}{}", lead, w, trail) } else { format!("{}{}{}{}{}", lead, w, mid, a, trail) };
        evaluations += 1;
        commands += 1;
        let l2 = line.clone();
        match guarded(move || parse_command(&l2)) {
          Err(e) => {
            ctx.violation("C20:parse_command:panic", &format!("parse_command({:?}) panicked: {}", line, e));
          }
          Ok(got) => {
            if got != Some(want) {
              ctx.violation(&format!("C20:parse_command:{}:case-or-whitespace", word), &format!("parse_command({:?}) = {:?}, expected {:?}", line, got, want));
            }
          }
        }
      }
    }
    // missing argument / unknown sub-command are rejected, not failures
    for line in [format!("{}", word), format!("{} ", word), format!("{} zz", word), format!("{} 0x", word), format!("{} 70000", word)].iter() {
      let needs_arg = arg.is_some();
      let l2 = line.clone();
      evaluations += 1;
      match guarded(move || parse_command(&l2)) {
        Err(e) => {
          ctx.violation("C20:parse_command:panic", &format!("parse_command({:?}) panicked: {}", line, e));
        }
        Ok(got) => {
          if needs_arg && got.is_some() {
            ctx.violation(&format!("C20:parse_command:{}:accepted-bad-argument", word), &format!("parse_command({:?}) = {:?}", line, got));
          }
        }
      }
    }
    ctx.distinct_key(hash_words(&[3, wi as u64]));
  }
  ctx.sample("\"\\u{3000}cOnTiNuE \" and every other letter-case pattern of break/c/continue/info reg/info registers/p/print/s/step with ASCII and Unicode whitespace -> the same Command");

  // ---- (4) arbitrary Unicode lines never make the parser fail
  let pool: Vec<char> = "abcikprstxX0189 \t\u{a0}\u{2003}\u{0130}\u{0131}ßΣσςǅ\u{0307}\u{0345}\u{1e9e}é\u{200b}\u{feff}💥\u{0}\u{1f}-+_.#$\u{ff10}\u{0661}İ".chars().collect();
  let nlines: u64 = if thorough { 2_000_000 } else { 200_000 };
  for chunk in 0..64u64 {
    let u = unit;
    unit += 1;
    if !ctx.mine(u) {
      continue;
    }
    ctx.intent2(u, 4);
    let mut rng = Rng::from(&[seed, 204, chunk]);
    for _ in 0..nlines / 64 {
      let len = rng.below(14) as usize;
      let mut s = String::new();
      if rng.chance(1, 3) {
        s.push_str(*rng.pick(&["break ", "p ", "print ", "info ", "0x", "BREAK\u{a0}", "İnfo ", "ſtep", "p\u{3000}0x"]));
      }
      for _ in 0..len {
        s.push(*rng.pick(&pool));
      }
      evaluations += 2;
      unicode_lines += 1;
      let s2 = s.clone();
      if let Err(e) = guarded(move || parse_command(&s2)) {
        ctx.violation("C20:parse_command:panic", &format!("parse_command({:?}) panicked: {}", s, e));
      }
      let s3 = s.clone();
      if let Err(e) = guarded(move || parse_address(&s3)) {
        ctx.violation("C20:parse_address:panic", &format!("parse_address({:?}) panicked: {}", s, e));
      }
    }
    ctx.distinct_key(hash_words(&[4, chunk]));
  }
  ctx.sample("random lines over a pool with multi-byte whitespace, characters whose lower-casing changes length (U+0130, U+1E9E), combining marks, NUL, digits from other scripts: parse_command/parse_address must return");

  // ---- (5) disassembly tiles complete-instruction sequences exactly
  let nseq: u64 = if thorough { 400_000 } else { 40_000 };
  for chunk in 0..64u64 {
    let u = unit;
    unit += 1;
    if !ctx.mine(u) {
      continue;
    }
    ctx.intent2(u, 5);
    let mut rng = Rng::from(&[seed, 205, chunk]);
    for k in 0..nseq / 64 {
      // a few sequences are longer than the address space (more than 65536 bytes: addresses wrap
      // once or twice, offsets into the sequence do not fit 16 bits)
      let long = !cfg!(miri) && k == 9 && chunk % 8 == 3;
      let n = if long { 40_000 + rng.below(30_000) as usize } else { 1 + rng.below(24) as usize };
      if long {
        long_sequences += 1;
      }
      let mut bytes: Vec<u8> = Vec::new();
      let mut lens: Vec<usize> = Vec::new();
      for j in 0..n {
        // walk through all 512 encodings systematically, then random
        let op = if k < 8 { ((k * 64 + chunk * 4 + j as u64) & 0xff) as u8 } else { rng.u8() };
        let second = rng.u8();
        let info = refcpu::info(op, second);
        bytes.push(op);
        if info.len >= 2 {
          bytes.push(second);
        }
        if info.len >= 3 {
          bytes.push(rng.u8());
        }
        lens.push(info.len as usize);
      }
      let start: u16 = match rng.below(4) {
        0 => 0xffff_u16.wrapping_sub(rng.below(bytes.len() as u64 + 2) as u16),
        1 => 0,
        _ => rng.u16(),
      };
      evaluations += 1;
      tilings += 1;
      let b2 = bytes.clone();
      let res = guarded(move || {
        let out = disassemble(start, &b2);
        out.iter().map(|i| format!("{}", i)).collect::<Vec<String>>()
      });
      let lines = match res {
        Err(e) => {
          ctx.violation(if long { "C20:disassemble:panic:sequence-longer-than-the-address-space" } else { "C20:disassemble:panic" }, &format!("disassemble({:04X}, {:02X?}{}) panicked: {}", start, &bytes[..bytes.len().min(40)], if long { format!(".. {} bytes", bytes.len()) } else { String::new() }, e));
          continue;
        }
        Ok(l) => l,
      };
      if lines.len() != n {
        ctx.violation("C20:disassemble:instruction-count", &format!("disassemble({:04X}, {:02X?}..): {} instructions, the sequence has {}", start, &bytes[..bytes.len().min(40)], lines.len(), n));
        continue;
      }
      let mut addr = start;
      let mut cursor = 0usize;
      for j in 0..n {
        let (_, dlen, _) = decoder::decode(&{
          let mut w = bytes[cursor..(cursor + 3).min(bytes.len())].to_vec();
          w.extend_from_slice(&[0, 0, 0]);
          w
        });
        let mut want = format!("{:#06X}  ", addr);
        for b in 0..lens[j] {
          want.push_str(&format!("{:02X} ", bytes[cursor + b]));
        }
        for _ in lens[j]..4 {
          want.push_str("   ");
        }
        if dlen != lens[j] {
          ctx.violation("C20:disassemble:decoder-length", &format!("decoder length {} for bytes {:02X?}, the encoding has {}", dlen, &bytes[cursor..cursor + lens[j]], lens[j]));
          break;
        }
        if !lines[j].starts_with(&want) {
          let what = if lines[j].get(..8) != want.get(..8) { "address" } else { "bytes-or-length" };
          ctx.violation(
            &format!("C20:disassemble:{}", what),
            &format!("disassemble({:04X}, ..) instruction #{}: rendered {:?}, expected to start with {:?}", start, j, lines[j], want),
          );
          break;
        }
        addr = addr.wrapping_add(lens[j] as u16);
        cursor += lens[j];
      }
    }
    ctx.distinct_key(hash_words(&[5, chunk]));
  }
  ctx.sample("disassemble(0xFFFD, [3E 12 | C3 34 12 | CB 7E | 00]) -> 4 instructions at 0xFFFD, 0xFFFF, 0x0002, 0x0004 with lengths 2,3,2,1 (addresses wrap), rendered as '0xFFFD  3E 12 ...'");
  let _ = unit;
  ctx.count("evaluations", evaluations);
  ctx.count("address-spellings-parsed", addresses);
  ctx.count("malformed-or-out-of-range-rejected", rejected);
  ctx.count("command-lines", commands);
  ctx.count("unicode-lines", unicode_lines);
  ctx.count("tilings-of-sequences-longer-than-65536-bytes", long_sequences);
  ctx.count("instruction-sequences-tiled", tilings);
}

pub fn on_crash(intent: &[u64], text: &str, status: &str, _err: &str) -> Option<(String, String)> {
  Some((format!("C20:crash:{}:{}", status.replace(' ', ""), text), format!("debugger code killed the process (unit {} part {})", intent[0], intent[1])))
}
