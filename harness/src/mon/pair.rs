//! Translated-vs-interpreted block execution on two identical cores.
//! Only compiled into jit variants.
#![cfg(feature = "jit")]

use crate::cache::CodeCache;
use crate::cpu::Registers;
use crate::emulator::Core;
use crate::interpreter;
use crate::mem::MemoryAreas;
use crate::rt::Ctx;
use crate::support;

#[repr(C)]
pub struct Guarded {
  pub pre: [u64; 4],
  pub regs: Registers,
  pub post: [u64; 4],
}

pub const CANARY: u64 = 0x5ca1ab1e_0ddba11;

pub struct Pair {
  pub a: Box<Core>, // translated
  pub b: Box<Core>, // interpreted
  pub image: Vec<u8>,
  pub path: String,
  pub guard: Box<Guarded>,
  pub block_offset: usize,
  pub translations: u64,
  pub cache_resets: u64,
  pub rebuilds: u64,
  pub use_trampoline: bool,
}

#[derive(Default, Clone)]
pub struct RunResult {
  pub a_regs: [u32; 7],
  pub b_regs: [u32; 7],
  pub a_status: u8,
  pub b_status: u8,
  pub a_writes: Vec<(u16, u8)>,
  pub b_writes: Vec<(u16, u8)>,
  pub canary_ok: bool,
  pub host_regs_ok: bool,
  pub host_detail: u64,
  pub overflow: bool,
}

pub static mut SAVED_RSP: u64 = 0;

/// Calls the cache's prologue directly with sentinels in every callee-saved
/// register and reports which of them (or rsp, or the direction flag) came
/// back different. Returns (status, damage mask).
pub unsafe fn trampoline(prologue: usize, regs: *mut Registers, block: usize, epilogue: usize) -> (u8, u64) {
  let status: u64;
  let damage: u64;
  core::arch::asm!(
    // realign and keep the old stack pointer
    "mov rax, rsp",
    "sub rsp, 128", // stay clear of the caller's red zone
    "and rsp, -16",
    "sub rsp, 16",
    "mov [rsp], rax",
    "push rbx",
    "push rbp",
    "push r12",
    "push r13",
    "push r14",
    "push r15",
    "mov rbx, 0x1111111111111111",
    "mov rbp, 0x2222222222222222",
    "mov r12, 0x3333333333333333",
    "mov r13, 0x4444444444444444",
    "mov r14, 0x5555555555555555",
    "mov r15, 0x6666666666666666",
    "mov [rip + {saved}], rsp",
    "call r10",
    // damage mask in r11
    "xor r11, r11",
    "cmp rsp, [rip + {saved}]",
    "je 2f",
    "or r11, 0x40",
    "mov rsp, [rip + {saved}]",
    "2:",
    "mov r10, 0x1111111111111111",
    "cmp rbx, r10",
    "je 3f",
    "or r11, 0x01",
    "3:",
    "mov r10, 0x2222222222222222",
    "cmp rbp, r10",
    "je 4f",
    "or r11, 0x02",
    "4:",
    "mov r10, 0x3333333333333333",
    "cmp r12, r10",
    "je 5f",
    "or r11, 0x04",
    "5:",
    "mov r10, 0x4444444444444444",
    "cmp r13, r10",
    "je 6f",
    "or r11, 0x08",
    "6:",
    "mov r10, 0x5555555555555555",
    "cmp r14, r10",
    "je 7f",
    "or r11, 0x10",
    "7:",
    "mov r10, 0x6666666666666666",
    "cmp r15, r10",
    "je 8f",
    "or r11, 0x20",
    "8:",
    "pushfq",
    "pop r10",
    "test r10, 0x400",
    "jz 9f",
    "or r11, 0x80",
    "cld",
    "9:",
    "pop r15",
    "pop r14",
    "pop r13",
    "pop r12",
    "pop rbp",
    "pop rbx",
    "mov rsp, [rsp]",
    saved = sym SAVED_RSP,
    in("r10") prologue,
    in("rdi") regs,
    in("rsi") block,
    in("rdx") epilogue,
    lateout("rax") status,
    lateout("r11") damage,
    lateout("r10") _,
    lateout("rdi") _,
    lateout("rsi") _,
    lateout("rdx") _,
    out("rcx") _,
    out("r8") _,
    out("r9") _,
  );
  (status as u8, damage)
}

pub fn standard_image() -> Vec<u8> {
  // MBC1+RAM+BATTERY, 2 MiB ROM (128 banks), 32 KiB RAM: no guest-reachable
  // bank value is out of range (that is C11's subject).
  let mut image = support::make_image(0x03, 0x06, 0x03);
  for bank in 0..128usize {
    for i in 0..0x4000usize {
      if bank == 0 && (0x100..0x150).contains(&i) {
        continue;
      }
      image[bank * 0x4000 + i] = (bank as u8) ^ (i as u8).wrapping_mul(13) ^ ((i >> 8) as u8);
    }
  }
  support::stamp_header(&mut image, 0x03, 0x06, 0x03);
  image
}

impl Pair {
  pub fn new(image: Vec<u8>) -> Pair {
    let path = support::write_temp_rom(&image);
    let a = support::core_from_file(&path).expect("generated image must load");
    let b = support::core_from_file(&path).expect("generated image must load");
    let guard = Box::new(Guarded { pre: [CANARY; 4], regs: Registers::new(), post: [CANARY; 4] });
    Pair { a, b, image, path, guard, block_offset: 0, translations: 0, cache_resets: 0, rebuilds: 0, use_trampoline: false }
  }

  /// start over with two fresh, identical cores (after a mismatch that left
  /// the two memories different, so one finding cannot cascade into phantom
  /// ones). The image file is mapped privately again by the real loader.
  pub fn rebuild(&mut self) {
    self.a = support::core_from_file(&self.path).expect("generated image must load");
    self.b = support::core_from_file(&self.path).expect("generated image must load");
    self.rebuilds += 1;
  }

  pub fn place(&mut self, at: u16, bytes: &[u8]) -> bool {
    super::opcmp::place_bytes(&mut self.a.memory, at, bytes) && super::opcmp::place_bytes(&mut self.b.memory, at, bytes)
  }

  /// translate the block that starts at `at` (fresh translation every time)
  pub fn translate(&mut self, at: u16) -> Result<(), String> {
    let (_, _, cursor, cap) = self.a.cache.verif_layout();
    if cursor + 0x20000 > cap {
      self.a.cache = CodeCache::new();
      self.cache_resets += 1;
    }
    let a = &mut *self.a;
    let mem_ptr = a.memory.as_ptr();
    let rom = &a.memory.rom;
    let cache = &mut a.cache;
    unsafe {
      crate::rt::EXPECT_PANIC = true;
    }
    let r = std::panic::catch_unwind(std::panic::AssertUnwindSafe(|| cache.translate_code_block(rom, at as usize, mem_ptr)));
    unsafe {
      crate::rt::EXPECT_PANIC = false;
    }
    match r {
      Ok(off) => {
        self.block_offset = off;
        self.translations += 1;
        Ok(())
      }
      Err(e) => {
        // the cache may be half-written: start a new one
        self.a.cache = CodeCache::new();
        Err(if let Some(s) = e.downcast_ref::<String>() {
          s.clone()
        } else if let Some(s) = e.downcast_ref::<&str>() {
          s.to_string()
        } else {
          "?".to_string()
        })
      }
    }
  }

  /// Run the prepared block on both cores from `regs_in`. The interpreter runs
  /// first: if *it* kills the process the case is outside C01's domain.
  pub fn run(&mut self, ctx: &Ctx, regs_in: &[u32; 7], intent: &[u64]) -> Result<RunResult, String> {
    let mut res = RunResult::default();
    // --- interpreter
    let mut iw = [0u64; crate::rt::INTENT_WORDS];
    let n = intent.len().min(10);
    iw[..n].copy_from_slice(&intent[..n]);
    iw[10] = 1; // phase: interpreter
    ctx.intent(&iw);
    support::set_regs(&mut self.b.registers, regs_in);
    let b_mem = &mut self.b.memory as *mut MemoryAreas;
    crate::verif::start(false);
    unsafe {
      crate::rt::EXPECT_PANIC = true;
    }
    let b_regs = &mut self.b.registers;
    let rb = std::panic::catch_unwind(std::panic::AssertUnwindSafe(|| interpreter::run_code_block(b_regs, b_mem)));
    unsafe {
      crate::rt::EXPECT_PANIC = false;
    }
    crate::verif::stop();
    res.overflow = crate::verif::overflowed();
    res.b_writes = support::logged_writes();
    res.b_regs = support::regs_tuple(&self.b.registers);
    match rb {
      Ok(s) => res.b_status = s,
      Err(_) => return Err("interpreter panicked".to_string()),
    }
    // --- translated
    iw[10] = 2; // phase: translated code
    ctx.intent(&iw);
    support::set_regs(&mut self.guard.regs, regs_in);
    crate::verif::start(false);
    let status = if self.use_trampoline {
      let (pro, epi, _, _) = self.a.cache.verif_layout();
      let base = self.a.cache.get_memory_start_address();
      let (st, damage) = unsafe { trampoline(base + pro, &mut self.guard.regs as *mut Registers, base + self.block_offset, base + epi) };
      res.host_detail = damage;
      res.host_regs_ok = damage == 0;
      st
    } else {
      res.host_regs_ok = true;
      self.a.cache.call(self.block_offset, &mut self.guard.regs)
    };
    crate::verif::stop();
    res.overflow |= crate::verif::overflowed();
    res.a_status = status;
    res.a_writes = support::logged_writes();
    res.a_regs = support::regs_tuple(&self.guard.regs);
    res.canary_ok = self.guard.pre == [CANARY; 4] && self.guard.post == [CANARY; 4];
    self.guard.pre = [CANARY; 4];
    self.guard.post = [CANARY; 4];
    support::set_regs(&mut self.a.registers, &res.a_regs);
    ctx.intent_clear();
    Ok(res)
  }

  pub fn drop_file(&self) {
    let _ = std::fs::remove_file(&self.path);
  }

  pub fn digests_equal(&self) -> bool {
    support::memory_digest(&self.a.memory) == support::memory_digest(&self.b.memory)
  }

  pub fn digest_diff(&self) -> String {
    support::diff_parts(&self.a.memory, &self.b.memory)
  }
}
