//! C09 - conservation of emulated time between the CPU and the devices.
//! An offline checker over the per-step hook log (C consume, D deliver,
//! S interrupt sample, V dispatch, W bus write) plus independent expectations:
//! a static cycle count of the executed block from the reference table, the
//! timer phase, and a shadow PPU advanced by the expected clocks.

use crate::devices::video::VideoState;
use crate::emulator::{Core, RunState};
use crate::gen::program;
use crate::mem::memory_read_byte;
use crate::refmodel::cpu as refcpu;
use crate::rt::{hash_words, Ctx};
use crate::support;
use crate::verif::{self, Event, EV_CONSUME, EV_DELIVER, EV_IRQ_SAMPLE, EV_IRQ_VECTOR, EV_WRITE};

const FRAME: u64 = 70224;

#[derive(PartialEq, Eq, Clone, Copy, Debug)]
enum Stepper {
  Update,        // Core::update(): instruction-stepped without jit, block-stepped with jit
  RunCodeBlock,  // Core::run_code_block() when running, update() when suspended
}

/// cost of the block that starts at `pc` according to the reference table,
/// following the fetch view; returns (cycles not counting the last
/// instruction's branch extra, terminator info, address after the terminator,
/// static target if any, number of instructions, largest plausible cost)
struct BlockCost {
  base: u32,
  extra_if_taken: u32,
  fallthrough: u16,
  target: Option<u16>,
  conditional: bool,
  instructions: u32,
  undefined: bool,
  /// some instruction of the block can store to memory (or push)
  stores: bool,
  early: Option<(u16, u32)>,
}

fn block_cost(core: &Core, pc: u16, single: bool) -> BlockCost {
  let mem = core.memory.as_ptr();
  let mut at = pc;
  let mut base = 0u32;
  let mut n = 0u32;
  let mut stores = false;
  // (where the block may end without a terminator, and what it has cost by then: the static
  // cost is accepted for either extent - where blocks are split is not this property's subject)
  let mut early: Option<(u16, u32)> = None;
  loop {
    let op = memory_read_byte(mem, at);
    let second = memory_read_byte(mem, at.wrapping_add(1));
    let third = memory_read_byte(mem, at.wrapping_add(2));
    let info = refcpu::info(op, second);
    if info.undefined {
      return BlockCost { base, extra_if_taken: 0, fallthrough: at, target: None, conditional: false, instructions: n, undefined: true, stores: true, early };
    }
    // the emulator's blocks end before an instruction (other than their first) that is cut by
    // the end of ROM bank 0 or by the end of ROM ...
    let end = at as u32 + info.len as u32;
    if n > 0 && !single && early.is_none() && ((at < 0x4000 && end > 0x4000) || (at < 0x8000 && end > 0x8000)) {
      early = Some((at, base));
    }
    n += 1;
    stores |= match op {
      0x02 | 0x12 | 0x22 | 0x32 | 0x08 | 0x34 | 0x35 | 0x36 | 0xe0 | 0xe2 | 0xea => true,
      0x70..=0x75 | 0x77 => true,
      0xc5 | 0xd5 | 0xe5 | 0xf5 | 0xcd | 0xc4 | 0xcc | 0xd4 | 0xdc | 0xc7 | 0xcf | 0xd7 | 0xdf | 0xe7 | 0xef | 0xf7 | 0xff => true,
      0xcb => second & 7 == 6 && !(0x40..=0x7f).contains(&second),
      _ => false,
    };
    let next = at.wrapping_add(info.len as u16);
    if info.block_end || single {
      let imm16 = (second as u16) | ((third as u16) << 8);
      let target = match op {
        0xc3 | 0xc2 | 0xca | 0xd2 | 0xda | 0xcd | 0xc4 | 0xcc | 0xd4 | 0xdc => Some(imm16),
        0x18 | 0x20 | 0x28 | 0x30 | 0x38 => Some(next.wrapping_add(second as i8 as i16 as u16)),
        0xc7 | 0xcf | 0xd7 | 0xdf | 0xe7 | 0xef | 0xf7 | 0xff => Some((op & 0x38) as u16),
        _ => None,
      };
      return BlockCost {
        base: base + info.cycles as u32,
        extra_if_taken: (info.cycles_taken - info.cycles) as u32,
        fallthrough: next,
        target,
        conditional: info.conditional,
        instructions: n,
        undefined: false,
        stores,
        early,
      };
    }
    base += info.cycles as u32;
    at = next;
    // ... and when they run from ROM bank 0 into the switchable bank
    if pc < 0x4000 && at >= 0x4000 && early.is_none() {
      early = Some((at, base));
    }
    if n > 40000 {
      return BlockCost { base, extra_if_taken: 0, fallthrough: at, target: None, conditional: false, instructions: n, undefined: true, stores: true, early };
    }
  }
}

fn ppu_pos(v: &VideoState) -> (u8, usize, u8) {
  v.verif_position()
}

struct Totals {
  steps_run: u64,
  steps_suspended: u64,
  dispatches: u64,
  consumed: u64,
  delivered: u64,
  frames: u64,
  max_frame_clocks: u64,
  frame_margin_min: u64,
  frame_synchronous: u64,
  static_checked: u64,
  static_ambiguous: u64,
  carried_five: u64,
  cancelled: u64,
}

fn check_program(ctx: &mut Ctx, prog: &program::Program, pidx: u64, stepper: Stepper, steps: u64, t: &mut Totals) {
  let mut core = support::core_from_image(&prog.image);
  let mut shadow = VideoState::new();
  let mut carry = 0u32; // machine cycles left in registers.cycles by a dispatch
  let instruction_stepped = stepper == Stepper::Update && !cfg!(feature = "jit");
  let path = match (stepper, cfg!(feature = "jit")) {
    (Stepper::Update, false) => "update-instruction-stepped",
    (Stepper::Update, true) => "update-block-stepped-jit",
    (Stepper::RunCodeBlock, false) => "run_code_block-interpreter",
    (Stepper::RunCodeBlock, true) => "run_code_block-jit",
  };
  let mut report = |ctx: &mut Ctx, rule: &str, step: u64, detail: String| {
    ctx.violation(&format!("C09:{}:{}", path, rule), &format!("program #{} [{}] step {}: {}", pidx, prog.description.trim(), step, detail));
  };
  for step in 0..steps {
    let running = core.run_state == RunState::Run;
    let pc = core.registers.ip as u16;
    let phase_before = core.memory.io.timer.verif_cycle_count();
    let cost = if running { Some(block_cost(&core, pc, instruction_stepped)) } else { None };
    if let Some(c) = &cost {
      if c.undefined {
        break; // the program ran into data: outside the workload's domain
      }
    }
    ctx.intent(&[pidx, step, pc as u64, stepper as u64]);
    verif::start(false);
    match stepper {
      Stepper::Update => core.update(),
      Stepper::RunCodeBlock => {
        if running {
          core.run_code_block()
        } else {
          core.update()
        }
      }
    }
    verif::stop();
    if verif::overflowed() {
      ctx.inconclusive("hook ring overflowed within one step");
      return;
    }
    let ev: Vec<Event> = support::masked_events();
    // --- rule 1/2: shape of the step
    let kinds: Vec<u8> = ev.iter().filter(|e| e.kind != EV_WRITE).map(|e| e.kind).collect();
    let shape_ok = if running {
      kinds == [EV_CONSUME, EV_DELIVER, EV_IRQ_SAMPLE] || kinds == [EV_CONSUME, EV_DELIVER, EV_IRQ_SAMPLE, EV_IRQ_VECTOR]
    } else {
      kinds == [EV_DELIVER, EV_IRQ_SAMPLE] || kinds == [EV_DELIVER, EV_IRQ_SAMPLE, EV_IRQ_VECTOR]
    };
    if !shape_ok {
      let s: String = kinds.iter().map(|k| *k as char).collect();
      report(ctx, if running { "step-shape:running" } else { "step-shape:suspended" }, step, format!("event order {:?} (C consume, D deliver, S sample, V dispatch); devices must be caught up exactly once, after the CPU, before interrupts are sampled", s));
      return;
    }
    let consumed = ev.iter().find(|e| e.kind == EV_CONSUME).map(|e| e.a).unwrap_or(0);
    let delivered = ev.iter().find(|e| e.kind == EV_DELIVER).map(|e| e.a).unwrap_or(0);
    let dispatched = ev.iter().any(|e| e.kind == EV_IRQ_VECTOR);
    let expected_delivery = if running { 4 * consumed } else { 4 };
    if delivered != expected_delivery {
      report(ctx, if running { "delivered!=4xconsumed" } else { "suspended-step-delivery" }, step, format!("consumed {} machine cycles, delivered {} clocks", consumed, delivered));
      return;
    }
    if running && consumed < 1 {
      report(ctx, "no-progress", step, "a running step consumed no machine cycle".to_string());
      return;
    }
    // --- rule 2b: every bus write of a step is made by the guest: by a store or push of the
    // block that ran, or by the two pushes of an interrupt dispatch. The emulator itself
    // writes nothing (a STOP, a HALT, a wake-up ... that pokes a device register is not
    // the guest's doing, however plausible the comment next to it)
    {
      // writes before the delivery of the step's clocks are the block's own; writes after it
      // are the DMA engine's (into OAM) until an interrupt dispatch begins (its two pushes)
      let mut delivered_seen = false;
      let mut vector_seen = false;
      let storeless = running && cost.as_ref().map(|c| !c.stores && !c.undefined).unwrap_or(false);
      for e in ev.iter() {
        if e.kind == EV_DELIVER {
          delivered_seen = true;
        } else if e.kind == EV_IRQ_VECTOR {
          vector_seen = true;
        } else if e.kind == EV_WRITE {
          let a = e.a & 0xffff;
          let by_dma = delivered_seen && (0xfe00..0xfea0).contains(&a);
          let by_block = !delivered_seen && running && !storeless;
          let by_dispatch = dispatched && delivered_seen && !by_dma;
          if !(by_dma || by_block || by_dispatch) {
            let what = if !running { "write-during-a-suspended-step" } else if storeless && !delivered_seen { "write-without-a-store-instruction" } else { "write-after-the-block-by-neither-dma-nor-dispatch" };
            report(ctx, what, step, format!("block at {:04X}: the bus saw a write {:04X} <- {:02X} that no instruction of the block, no DMA transfer and no interrupt dispatch accounts for", pc, a, e.b & 0xff));
            return;
          }
        }
      }
      let _ = vector_seen;
    }
    // --- rule 3: dispatch leaves exactly five cycles for the next running step
    let cycles_left = core.registers.cycles;
    if dispatched && cycles_left != 5 {
      report(ctx, "dispatch-cycles", step, format!("registers.cycles = {} after a dispatch", cycles_left));
      return;
    }
    // --- rule 4: independent value of the consumed cycles
    if running {
      let c = cost.unwrap();
      // the PC the block ended on: the pushed PC when a dispatch followed, else the register
      let end_pc: u16 = if dispatched {
        let pushes: Vec<&Event> = ev.iter().rev().filter(|e| e.kind == EV_WRITE).take(2).collect();
        if pushes.len() == 2 {
          ((pushes[1].b as u16) << 8) | (pushes[0].b as u16)
        } else {
          core.registers.ip as u16
        }
      } else {
        core.registers.ip as u16
      };
      let mut candidates: Vec<u32> = Vec::new();
      if !c.conditional {
        candidates.push(c.base);
      } else {
        match c.target {
          Some(tg) => {
            if end_pc == tg {
              candidates.push(c.base + c.extra_if_taken);
            }
            if end_pc == c.fallthrough {
              candidates.push(c.base);
            }
          }
          None => {
            // RET cc: taken unless it fell through (ambiguous when the popped address is the fall-through)
            if end_pc == c.fallthrough {
              candidates.push(c.base);
              candidates.push(c.base + c.extra_if_taken);
              t.static_ambiguous += 1;
            } else {
              candidates.push(c.base + c.extra_if_taken);
            }
          }
        }
      }
      if let Some((epc, ecost)) = c.early {
        if end_pc == epc {
          candidates.push(ecost);
        }
      }
      if candidates.is_empty() {
        report(ctx, "block-end-pc", step, format!("block at {:04X} ended at {:04X}, neither its target {:04X?} nor its fall-through {:04X}", pc, end_pc, c.target, c.fallthrough));
        return;
      }
      t.static_checked += 1;
      if !candidates.iter().any(|x| x + carry == consumed) {
        report(
          ctx,
          "consumed!=static-cost",
          step,
          format!(
            "block at {:04X} ({} instructions) consumed {} machine cycles; reference table gives {:?} plus {} carried from a dispatch",
            pc, c.instructions, consumed, candidates, carry
          ),
        );
        return;
      }
      if carry != 0 {
        t.carried_five += 1;
      }
      carry = 0;
    }
    if dispatched {
      carry = 5;
    }
    // --- rule 5: what the devices saw
    let div_written = ev.iter().any(|e| e.kind == EV_WRITE && e.a == 0xff04 && {
      // only writes made by the CPU part of the step reset DIV before the delivery
      true
    });
    let phase_after = core.memory.io.timer.verif_cycle_count();
    // a DIV write after the delivery can only be an interrupt push landing on 0xFF04
    let div_written_before_delivery = {
      let mut seen_d = false;
      let mut w = false;
      for e in ev.iter() {
        if e.kind == EV_DELIVER {
          seen_d = true;
        }
        if e.kind == EV_WRITE && e.a == 0xff04 && !seen_d {
          w = true;
        }
      }
      w
    };
    let div_written_after_delivery = div_written && ev.iter().skip_while(|e| e.kind != EV_DELIVER).any(|e| e.kind == EV_WRITE && e.a == 0xff04);
    if !div_written_after_delivery {
      let start = if div_written_before_delivery { 0 } else { phase_before };
      let want = (start + delivered) & 0xffff;
      if phase_after != want {
        report(ctx, "timer-phase", step, format!("divider phase {:04X} -> {:04X}, expected {:04X} after {} clocks", phase_before, phase_after, want, delivered));
        return;
      }
    }
    shadow.run_clock_cycles(crate::timing::ClockCycles(delivered as usize), &core.memory.video_ram, &core.memory.oam_ram);
    if ppu_pos(&shadow) != ppu_pos(&core.memory.io.video) {
      report(ctx, "ppu-position", step, format!("LCD position {:?}, a shadow LCD advanced by the same clocks is at {:?}", ppu_pos(&core.memory.io.video), ppu_pos(&shadow)));
      return;
    }
    if running {
      t.steps_run += 1;
    } else {
      t.steps_suspended += 1;
    }
    if dispatched {
      t.dispatches += 1;
      if ev.iter().any(|e| e.kind == EV_IRQ_VECTOR && e.a == 0 && e.b == 0) {
        t.cancelled += 1; // the push took away every pending source: PC = 0x0000, still five cycles
      }
    }
    t.consumed += consumed as u64;
    t.delivered += delivered as u64;
  }
  // --- rule 6: run_frame terminates within two frame periods plus one block (in emulated time)
  // (the program with the 12 000-instruction block gets more calls and a larger "one block")
  let long_blocks = prog.description.starts_with("cache pressure");
  let longest = prog.description.starts_with("long duration") || prog.description.starts_with("frame synchronous");
  // "plus one block": no block of the generated programs costs more than 2000 machine cycles,
  // the 12 000-instruction slide 12 001, a bank of PUSH BC 65536 (+5 after a dispatch)
  let max_block: u64 = if longest {
    65_541
  } else if long_blocks {
    13_000
  } else {
    2000
  };
  for _ in 0..(if long_blocks || longest { 40 } else { 3 }) {
    let pc = core.registers.ip as u16;
    let bound = 2 * FRAME + 4 * max_block;
    // clocks from the LCD's position now to the end of the vertical blank that is in
    // progress or comes next: run_frame may not return before that
    let need = {
      let (mode, dots, line) = ppu_pos(&core.memory.io.video);
      let in_line = match mode {
        2 | 1 => dots,
        3 => 80 + dots,
        _ => 268 + dots,
      };
      FRAME - ((line as u64) * 456 + in_line as u64) % FRAME
    };
    ctx.intent(&[pidx, 1 << 40, pc as u64, stepper as u64]);
    verif::start(false);
    verif::set_deliver_limit(bound + 4 * FRAME);
    unsafe {
      crate::rt::EXPECT_PANIC = true;
    }
    let r = {
      let c = &mut *core;
      std::panic::catch_unwind(std::panic::AssertUnwindSafe(|| c.run_frame()))
    };
    unsafe {
      crate::rt::EXPECT_PANIC = false;
    }
    verif::stop();
    let (delivered, _) = verif::totals();
    match r {
      Err(e) => {
        let msg = e.downcast_ref::<String>().cloned().or_else(|| e.downcast_ref::<&str>().map(|s| s.to_string())).unwrap_or_default();
        if delivered > bound {
          report(ctx, "run_frame-does-not-terminate", 0, format!("run_frame() from PC {:04X} was still running after {} emulated clocks (bound {})", pc, delivered, bound));
        } else {
          report(ctx, "run_frame-panicked", 0, format!("run_frame() from PC {:04X} panicked after {} emulated clocks: {}", pc, delivered, msg));
        }
        return;
      }
      Ok(()) => {
        t.frames += 1;
        t.max_frame_clocks = t.max_frame_clocks.max(delivered);
        if delivered > bound {
          report(ctx, "run_frame-too-long", 0, format!("run_frame() delivered {} clocks, more than two frame periods plus one block ({})", delivered, bound));
          return;
        }
        if delivered < need {
          report(ctx, "run_frame-returns-early", 0, format!("run_frame() from PC {:04X} returned after {} clocks, {} before the end of the vertical blank", pc, delivered, need - delivered));
          return;
        }
        // (a block shorter than the visible part of a frame cannot end in the following vertical blank)
        if max_block < 16_000 && core.memory.io.video.get_current_mode() == 1 {
          report(ctx, "run_frame-postcondition", 0, "run_frame() returned while the LCD is still in vertical blank".to_string());
          return;
        }
        t.frame_margin_min = t.frame_margin_min.min(delivered - need);
      }
    }
  }
}

pub fn run(ctx: &mut Ctx) {
  let thorough = ctx.thorough();
  let seed = ctx.seed;
  let nprog: u64 = if thorough { 1200 } else { 160 };
  let steps: u64 = if thorough { 30_000 } else { 12_000 };
  let mut t = Totals { steps_run: 0, steps_suspended: 0, dispatches: 0, consumed: 0, delivered: 0, frames: 0, max_frame_clocks: 0, frame_margin_min: u64::MAX, frame_synchronous: 0, static_checked: 0, static_ambiguous: 0, carried_five: 0, cancelled: 0 };
  for p in 0..nprog {
    if !ctx.mine(p) {
      continue;
    }
    let (ct, rc) = match p % 4 {
      0 => (0x03u8, 0x02u8),
      1 => (0x13, 0x03),
      2 => (0x00, 0x00),
      _ => (0x01, 0x04),
    };
    let prog = program::generate(seed, p, ct, rc);
    for &st in [Stepper::Update, Stepper::RunCodeBlock].iter() {
      check_program(ctx, &prog, p, st, steps, &mut t);
      ctx.distinct_key(hash_words(&[p, st as u64, seed]));
    }
    if ctx.want_sample() && p % 37 == 5 {
      ctx.sample(&format!("program #{} (cart type {:02X}, {} banks): {} | per step: C(m) D(4m) S [V], m = static block cost (+5 after a dispatch), timer phase and shadow LCD advanced by D; then 3 x run_frame()", p, ct, prog.banks, prog.description.trim()));
    }
  }
  // one more program: blocks of up to 12 000 machine cycles (longer than a scan line, than
  // the vertical blank, than most of a frame) - the frame loop must cope with a block
  // that carries the LCD across any boundary it is waiting for
  if ctx.mine(nprog) {
    let (image, description) = crate::gen::pressure::cache_pressure_image();
    let prog = program::Program { image, cart_type: 0x13, banks: 128, features: Default::default(), description };
    for &st in [Stepper::Update, Stepper::RunCodeBlock].iter() {
      check_program(ctx, &prog, nprog, st, 400, &mut t);
    }
    ctx.distinct_key(hash_words(&[nprog, 0xb10c]));
  }
  // and one whose blocks take as long as a block can: 65536 machine cycles, 262144 clocks
  if ctx.mine(nprog + 1) {
    let (image, description) = crate::gen::pressure::long_duration_image();
    let prog = program::Program { image, cart_type: 0x00, banks: 2, features: Default::default(), description };
    for &st in [Stepper::Update, Stepper::RunCodeBlock].iter() {
      check_program(ctx, &prog, nprog + 1, st, 40, &mut t);
    }
    ctx.distinct_key(hash_words(&[nprog + 1, 0xb10d]));
  }
  // and loops that are one block of exactly one frame period: whatever the emulator samples
  // between blocks never changes
  for lead in 0..6u64 {
    if ctx.mine(nprog + 2 + lead) {
      let (image, description) = crate::gen::pressure::frame_synchronous_image((lead * 331) as usize);
      let prog = program::Program { image, cart_type: 0x00, banks: 2, features: Default::default(), description };
      for &st in [Stepper::Update, Stepper::RunCodeBlock].iter() {
        check_program(ctx, &prog, nprog + 2 + lead, st, 12, &mut t);
      }
      t.frame_synchronous += 1;
      ctx.distinct_key(hash_words(&[nprog + 2 + lead, 0xb10e]));
    }
  }
  // and every relative-jump displacement, taken (JR, JR Z, JR NC with Z set and C clear):
  // rule 4 prices each of them from the table, d = 0 included
  if ctx.mine(nprog + 12) {
    let (image, description) = crate::gen::pressure::jr_ladder_image();
    let prog = program::Program { image, cart_type: 0x01, banks: 16, features: Default::default(), description };
    for &st in [Stepper::Update, Stepper::RunCodeBlock].iter() {
      check_program(ctx, &prog, nprog + 12, st, 1700, &mut t);
    }
    ctx.distinct_key(hash_words(&[nprog + 12, 0xb110]));
  }
  // and dispatches that their own push cancels (SP = 0x0000: the pushed high byte lands on
  // IE; SP = 0xFF10: on IF): they cost five machine cycles like any other, and the devices
  // must receive those twenty clocks
  for (k, &high) in [0x01u8, 0x02, 0x10, 0x3b].iter().enumerate() {
    let idx = nprog + 8 + k as u64;
    if ctx.mine(idx) {
      let (image, description) = crate::gen::pressure::cancelled_dispatch_image(high);
      let prog = program::Program { image, cart_type: 0x00, banks: 2, features: Default::default(), description };
      for &st in [Stepper::Update, Stepper::RunCodeBlock].iter() {
        check_program(ctx, &prog, idx, st, 3000, &mut t);
      }
      ctx.distinct_key(hash_words(&[idx, 0xb10f]));
    }
  }
  ctx.count("evaluations", t.steps_run + t.steps_suspended);
  ctx.count("steps:running", t.steps_run);
  ctx.count("steps:halted-or-stopped", t.steps_suspended);
  ctx.count("dispatches", t.dispatches);
  ctx.count("dispatches-cancelled-by-their-own-push", t.cancelled);
  ctx.count("machine-cycles-consumed", t.consumed);
  ctx.count("clocks-delivered", t.delivered);
  ctx.count("static-cost-checks", t.static_checked);
  ctx.count("static-cost-ambiguous(RET cc to fall-through)", t.static_ambiguous);
  ctx.count("steps-that-included-5-dispatch-cycles", t.carried_five);
  ctx.count("run_frame-calls", t.frames);
  ctx.count("run_frame-max-clocks", t.max_frame_clocks);
  ctx.count("frame-synchronous-loops", t.frame_synchronous);
}

pub fn on_crash(intent: &[u64], text: &str, status: &str, _err: &str) -> Option<(String, String)> {
  Some((
    format!("C09:crash:{}:{}", status.replace(' ', ""), text),
    format!("the emulator killed the process: program #{} step {} pc {:04X}", intent[0], intent[1], intent[2]),
  ))
}
