//! C01 / C02 - translated block vs interpreted block (registers, flags, PC,
//! SP, status, bus writes in order, device/bank state, host integrity) and
//! identical machine-cycle charge. One engine feeds both properties; the
//! signature prefix says which property a divergence belongs to.
#![cfg(feature = "jit")]

use super::pair::{Pair, RunResult};
use crate::gen::{EDGE16, EDGE8};
use crate::refmodel::cpu as refcpu;
use crate::rt::{hash_words, Ctx, Rng};
use crate::support;

const HALT: u8 = 0x76;

struct Mon<'a> {
  ctx: &'a mut Ctx,
  p: Pair,
  evaluations: u64,
  since_full_digest: u64,
  excluded_bank: u64,
  excluded_interp_panic: u64,
  excluded_translate_panic: u64,
  writes_compared: u64,
  light_digests: u64,
  full_digests: u64,
  log: Vec<(u16, Vec<u8>, [u32; 7])>,
  keep_log: bool,
  bisections: u32,
  cur_at: u16,
  cur_bytes: Vec<u8>,
}

fn opname(bytes: &[u8]) -> String {
  if bytes[0] == 0xcb {
    format!("CB{:02X}", bytes[1])
  } else {
    format!("{:02X}", bytes[0])
  }
}

fn light_digest(mem: &crate::mem::MemoryAreas) -> u64 {
  // RAM contents are covered by the write logs; this is the device/bank state
  let parts = support::device_parts(mem);
  let words: Vec<u64> = parts.iter().map(|p| p.1).collect();
  hash_words(&words)
}

impl<'a> Mon<'a> {
  fn prepare(&mut self, at: u16, bytes: &[u8]) -> bool {
    self.cur_at = at;
    self.cur_bytes = bytes.to_vec();
    if !self.p.place(at, bytes) {
      return false;
    }
    match self.p.translate(at) {
      Ok(()) => true,
      Err(_) => {
        self.excluded_translate_panic += 1;
        false
      }
    }
  }

  fn reprepare(&mut self) {
    self.since_full_digest = 0;
    let at = self.cur_at;
    let bytes = self.cur_bytes.clone();
    self.p.rebuild();
    self.log.clear();
    self.p.place(at, &bytes);
    let _ = self.p.translate(at);
  }

  /// run the prepared block from `regs`; `culprit` names the instruction a
  /// divergence is attributed to (the only non-terminator of the block)
  fn run(&mut self, regs: &[u32; 7], culprit: &[u8], intent: &[u64]) -> Option<Vec<String>> {
    let name = opname(culprit);
    self.run_named(regs, &name, culprit, intent)
  }

  fn run_named(&mut self, regs: &[u32; 7], name: &str, culprit: &[u8], intent: &[u64]) -> Option<Vec<String>> {
    self.evaluations += 1;
    let res = match self.p.run(self.ctx, regs, intent) {
      Ok(r) => r,
      Err(_) => {
        self.excluded_interp_panic += 1;
        self.reprepare();
        return None;
      }
    };
    if self.keep_log {
      self.log.push((self.cur_at, self.cur_bytes.clone(), *regs));
    }
    let sigs = self.compare(&res, regs, name, culprit);
    if sigs.is_some() {
      // a divergence in registers/cycles/write order may leave the two
      // memories identical: only start over when they really differ
      self.full_digests += 1;
      if !self.p.digests_equal() {
        if std::env::var("GBV_DEBUG").is_ok() {
          eprintln!("rebuild after {:?}: {}", sigs, self.p.digest_diff());
        }
        self.reprepare();
      }
    }
    sigs
  }

  fn compare(&mut self, res: &RunResult, regs: &[u32; 7], name: &str, culprit: &[u8]) -> Option<Vec<String>> {
    let at = self.cur_at;
    // domain exclusion: bank-register write inside a block running from the switchable bank
    let block_end = at as u32 + self.cur_bytes.len() as u32;
    if block_end > 0x4000 && res.b_writes.iter().any(|w| w.0 < 0x8000) {
      self.excluded_bank += 1;
      self.reprepare();
      return None;
    }
    let mut found: Vec<(String, String)> = Vec::new();
    let op = name.to_string();
    let names = ["af", "bc", "de", "hl", "sp", "pc"];
    for i in 0..6 {
      if res.a_regs[i] != res.b_regs[i] {
        let kind = if res.a_regs[i] as u16 == res.b_regs[i] as u16 { "range" } else { "value" };
        found.push((
          format!("C01:op={}:{}:{}", op, names[i], kind),
          format!("{} translated={:X} interpreted={:X}", names[i], res.a_regs[i], res.b_regs[i]),
        ));
      }
    }
    // "modulo Core::run_code_block's interpretation": 4 and 5 both enable
    // interrupts, and any value outside 1..=5 is treated as STATUS_NORMAL there
    // (translated BIT leaves 0x80 in the status register; measured, harmless)
    let norm = |s: u8| match s {
      5 => 4,
      1..=4 => s,
      _ => 0,
    };
    if norm(res.a_status) != norm(res.b_status) {
      found.push((format!("C01:op={}:status", op), format!("status translated={} interpreted={}", res.a_status, res.b_status)));
    }
    if res.a_regs[6] != res.b_regs[6] {
      // third voter: the reference table, for blocks of one instruction (+HALT)
      let info = refcpu::info(culprit[0], if culprit.len() > 1 { culprit[1] } else { 0 });
      let sig = if name == "block" {
        "C02:op=block:cycles".to_string()
      } else {
        format!("C02:op={}:cycles:jit={}:interp={}", op, res.a_regs[6].wrapping_sub(regs[6]), res.b_regs[6].wrapping_sub(regs[6]))
      };
      found.push((
        sig,
        format!(
          "block cycles translated={} interpreted={} (reference: instruction alone {} not taken / {} taken)",
          res.a_regs[6].wrapping_sub(regs[6]),
          res.b_regs[6].wrapping_sub(regs[6]),
          info.cycles,
          info.cycles_taken
        ),
      ));
    }
    self.writes_compared += res.b_writes.len() as u64;
    if res.a_writes != res.b_writes {
      let kind = if res.a_writes.len() != res.b_writes.len() {
        "count"
      } else {
        let mut x = res.a_writes.clone();
        let mut y = res.b_writes.clone();
        x.sort();
        y.sort();
        if x == y {
          "order"
        } else {
          "value"
        }
      };
      found.push((
        format!("C01:op={}:bus-writes:{}", op, kind),
        format!("bus writes translated={:X?} interpreted={:X?}", &res.a_writes[..res.a_writes.len().min(6)], &res.b_writes[..res.b_writes.len().min(6)]),
      ));
    }
    if !res.canary_ok {
      found.push((format!("C01:op={}:host:register-file-canary", op), "memory next to the register file was overwritten".to_string()));
    }
    if !res.host_regs_ok {
      found.push((
        format!("C01:op={}:host:callee-saved:{:02X}", op, res.host_detail),
        format!("callee-saved register / rsp / DF damage mask {:02X} (1=rbx 2=rbp 4=r12 8=r13 10=r14 20=r15 40=rsp 80=DF)", res.host_detail),
      ));
    }
    if res.overflow {
      self.ctx.inconclusive("hook event ring overflowed");
    }
    // device / bank state
    let touched_special = res.b_writes.iter().any(|w| w.0 < 0x8000 || w.0 >= 0xff00) || res.a_writes.iter().any(|w| w.0 < 0x8000 || w.0 >= 0xff00);
    self.since_full_digest += 1;
    if found.is_empty() {
      if self.since_full_digest >= 8192 {
        self.since_full_digest = 0;
        self.full_digests += 1;
        if !self.p.digests_equal() {
          found.push((format!("C01:op={}:state", op), format!("full state digests differ: {}", self.p.digest_diff())));
        }
      } else if touched_special {
        self.light_digests += 1;
        if light_digest(&self.p.a.memory) != light_digest(&self.p.b.memory) {
          found.push((format!("C01:op={}:state", op), format!("device/bank state differs: {}", self.p.digest_diff())));
        }
      }
    }
    if found.is_empty() {
      return None;
    }
    let mut sigs = Vec::new();
    for (sig, what) in found {
      let detail = format!(
        "block at {:04X} bytes [{}] from {} : {} | translated: {} | interpreted: {}",
        at,
        support::hexbytes(&self.cur_bytes),
        support::fmt_regs(regs),
        what,
        support::fmt_regs(&res.a_regs),
        support::fmt_regs(&res.b_regs)
      );
      self.ctx.violation(&sig, &detail);
      sigs.push(sig);
    }
    Some(sigs)
  }
}

fn img(a: u8, f: u8, r: u8, v: u8, hl: u16) -> [u32; 7] {
  let mut b = 0x12u8;
  let mut c = 0x34u8;
  let mut d = 0x56u8;
  let mut e = 0x78u8;
  let mut h = (hl >> 8) as u8;
  let mut l = hl as u8;
  let mut a = a;
  match r {
    0 => b = v,
    1 => c = v,
    2 => d = v,
    3 => e = v,
    4 => h = v,
    5 => l = v,
    6 => {}
    _ => a = v,
  }
  [
    ((a as u32) << 8) | f as u32,
    ((b as u32) << 8) | c as u32,
    ((d as u32) << 8) | e as u32,
    ((h as u32) << 8) | l as u32,
    0xdff0,
    0,
    0,
  ]
}

fn is_terminator(op: u8) -> bool {
  refcpu::info(op, 0).block_end
}

/// a one-instruction block: the instruction, then HALT unless it ends the block itself
fn block_of(instr: &[u8]) -> Vec<u8> {
  let mut v = instr.to_vec();
  if !is_terminator(instr[0]) {
    v.push(HALT);
  }
  v
}

pub fn run(ctx: &mut Ctx) {
  let thorough = ctx.thorough();
  let seed = ctx.seed;
  let sample_mode = ctx.arg_u64("sample", 0) != 0; // reduced workload for ASan / valgrind
  let use_trampoline_all = ctx.arg_u64("trampoline", 0) != 0;
  let mut m = Mon {
    ctx,
    p: Pair::new(super::pair::standard_image()),
    evaluations: 0,
    since_full_digest: 0,
    excluded_bank: 0,
    excluded_interp_panic: 0,
    excluded_translate_panic: 0,
    writes_compared: 0,
    light_digests: 0,
    full_digests: 0,
    log: Vec::new(),
    keep_log: false,
    bisections: 0,
    cur_at: 0,
    cur_bytes: Vec::new(),
  };
  m.p.use_trampoline = use_trampoline_all;
  let mut unit: u64 = 0;
  macro_rules! my_unit {
    () => {{
      let u = unit;
      unit += 1;
      if m.ctx.mine(u) {
        Some(u)
      } else {
        None
      }
    }};
  }
  let e8: Vec<u8> = if thorough && !sample_mode { (0..=255u16).map(|x| x as u8).collect() } else { EDGE8.to_vec() };

  // ---- F0: every defined encoding x 16 flag nibbles x two placements, safe pointers
  for first in 0..=255u16 {
    let first = first as u8;
    if refcpu::is_undefined(first) {
      continue;
    }
    let seconds: Vec<u8> = if first == 0xcb { (0..=255u16).map(|x| x as u8).collect() } else { vec![0x42] };
    for &second in seconds.iter() {
      if let Some(u) = my_unit!() {
        let info = refcpu::info(first, second);
        let mut instr = vec![first];
        if info.len >= 2 {
          instr.push(second);
        }
        if info.len == 3 {
          instr.push(0xc1); // a16 = 0xC142 (work RAM) / jump target 0xC142
        }
        let block = block_of(&instr);
        // third placement: the instruction straddles the 0x3FFF/0x4000 bank boundary
        let places: &[u16] = if info.len >= 2 { &[0x0150, 0x4100, 0x3fff] } else { &[0x0150, 0x4100] };
        for (pi, &at) in places.iter().enumerate() {
          m.p.use_trampoline = use_trampoline_all || pi == 1;
          if !m.prepare(at, &block) {
            continue;
          }
          for fl in 0..16u8 {
            for &cyc in [0u32, 5].iter() {
              let mut r = img(0x5a, fl << 4, 7, 0x5a, 0xc230);
              r[1] = 0xc210;
              r[2] = 0xc220;
              r[4] = 0xc3f0;
              r[5] = at as u32;
              r[6] = cyc;
              m.run(&r, &instr, &[u, first as u64, second as u64, at as u64, fl as u64]);
            }
          }
          m.ctx.distinct_key(hash_words(&[100, first as u64, second as u64, pi as u64]));
        }
        // the same instruction followed by a terminator that sets no status
        // (JP): a status left behind by the instruction itself becomes visible
        if !is_terminator(first) {
          let mut block2 = instr.clone();
          block2.extend_from_slice(&[0xc3, 0x00, 0x02]);
          if m.prepare(0x0150, &block2) {
            for fl in 0..16u8 {
              let mut r = img(0x5a, fl << 4, 7, 0x5a, 0xc230);
              r[1] = 0xc210;
              r[2] = 0xc220;
              r[4] = 0xc3f0;
              r[5] = 0x0150;
              m.run(&r, &instr, &[u, first as u64, second as u64, 0x0150, fl as u64]);
            }
            m.ctx.count("cases:F0-instruction-then-JP", 16);
          }
        }
        m.p.use_trampoline = use_trampoline_all;
        m.ctx.count("encodings-executed-x16-flags", 1);
        m.ctx.count("cases:F0-all-encodings", 64);
      }
    }
  }
  m.ctx.sample("F0: each of the 501 defined encodings as a block (instruction + HALT, or the terminator itself) at 0x0150 and 0x4100, 16 flag nibbles x entry cycles {0,5}; pointers in work RAM; second placement through the register-sentinel trampoline");

  // ---- F1: register-only data forms: operand sweeps (translate once, sweep registers)
  for op in 0..=255u16 {
    let op = op as u8;
    let class = refcpu::class_name(op, 0);
    let z = op & 7;
    let y = (op >> 3) & 7;
    match class {
      "ALU A,r" => {
        if let Some(u) = my_unit!() {
          if !m.prepare(0x0200, &[op, HALT]) {
            continue;
          }
          let mut n = 0;
          for &a in e8.iter() {
            let operands: &[u8] = if z == 7 { &[0] } else { &e8 };
            for &v in operands.iter() {
              for fl in 0..16u8 {
                let r = img(a, fl << 4, z, if z == 7 { a } else { v }, 0xc230);
                let mut r = r;
                r[5] = 0x0200;
                m.run(&r, &[op], &[u, op as u64, a as u64, v as u64, fl as u64]);
                n += 1;
              }
            }
            m.ctx.distinct_key(hash_words(&[101, op as u64, a as u64]));
          }
          m.ctx.count("cases:F1-alu-reg", n);
        }
      }
      "ALU A,d8" => {
        for &imm in e8.iter() {
          if let Some(u) = my_unit!() {
            if !m.prepare(0x0200, &[op, imm, HALT]) {
              continue;
            }
            let mut n = 0;
            for &a in e8.iter() {
              for fl in 0..16u8 {
                let mut r = img(a, fl << 4, 7, a, 0xc230);
                r[5] = 0x0200;
                m.run(&r, &[op, imm], &[u, op as u64, a as u64, imm as u64, fl as u64]);
                n += 1;
              }
            }
            m.ctx.distinct_key(hash_words(&[102, op as u64, imm as u64]));
            m.ctx.count("cases:F1-alu-imm", n);
          }
        }
      }
      "INC r" | "DEC r" | "RLCA" | "RRCA" | "RLA" | "RRA" | "DAA" | "CPL" | "SCF" | "CCF" | "LD r,r" | "NOP" | "LD SP,HL" => {
        if let Some(u) = my_unit!() {
          if !m.prepare(0x0200, &[op, HALT]) {
            continue;
          }
          let reg = match class {
            "INC r" | "DEC r" => y,
            "LD r,r" => z,
            _ => 7,
          };
          let mut n = 0;
          for v in 0..=255u8 {
            for fl in 0..16u8 {
              let mut r = img(if reg == 7 { v } else { 0xa5 }, fl << 4, reg, v, 0xc230);
              r[5] = 0x0200;
              m.run(&r, &[op], &[u, op as u64, v as u64, 0, fl as u64]);
              n += 1;
            }
          }
          m.ctx.distinct_key(hash_words(&[103, op as u64]));
          m.ctx.count("cases:F1-unary", n);
        }
      }
      "LD r,d8" => {
        for &imm in EDGE8.iter() {
          if let Some(u) = my_unit!() {
            if !m.prepare(0x0200, &[op, imm, HALT]) {
              continue;
            }
            for fl in [0u8, 0xf0, 0x50].iter() {
              let mut r = img(0x11, *fl, 7, 0x11, 0xc230);
              r[5] = 0x0200;
              m.run(&r, &[op, imm], &[u, op as u64, imm as u64]);
            }
            m.ctx.count("cases:F1-ld-imm", 3);
          }
        }
      }
      "INC rr" | "DEC rr" => {
        let p = (op >> 4) & 3;
        for hi in 0..16u32 {
          if let Some(u) = my_unit!() {
            if !m.prepare(0x0200, &[op, HALT]) {
              continue;
            }
            for lo in 0..4096u32 {
              let v = (hi << 12) | lo;
              let mut r = [0x7750 | ((lo & 0xa) << 4), 0x1111, 0x2222, 0x3333, 0x4444, 0x0200, 0];
              r[1 + p as usize] = v;
              m.run(&r, &[op], &[u, op as u64, v as u64]);
            }
            m.ctx.distinct_key(hash_words(&[104, op as u64, hi as u64]));
            m.ctx.count("cases:F2-incdec16-all-values", 4096);
          }
        }
      }
      "ADD HL,rr" => {
        let p = (op >> 4) & 3;
        if let Some(u) = my_unit!() {
          if !m.prepare(0x0200, &[op, HALT]) {
            continue;
          }
          let mut rng = Rng::from(&[seed, 11, op as u64]);
          let mut n = 0;
          let mut one = |m: &mut Mon, hl: u16, v: u16, fl: u8| {
            let mut r = [0x3300 | ((fl as u32) << 4), 0x1111, 0x2222, hl as u32, 0x4444, 0x0200, 0];
            if p != 2 {
              r[if p == 3 { 4 } else { 1 + p as usize }] = v as u32;
            }
            m.run(&r, &[op], &[u, op as u64, hl as u64, v as u64, fl as u64]);
          };
          for &hl in EDGE16.iter() {
            for &v in EDGE16.iter() {
              for fl in 0..16u8 {
                one(&mut m, hl, v, fl);
                n += 1;
              }
            }
          }
          let k = if thorough { 2_000_000 } else { 60_000 };
          for _ in 0..k {
            one(&mut m, rng.u16(), rng.u16(), rng.u8() & 0xf);
            n += 1;
          }
          m.ctx.distinct_key(hash_words(&[105, op as u64]));
          m.ctx.count("cases:F2-add-hl", n);
        }
      }
      "ADD SP,e8" | "LD HL,SP+e8" => {
        for e in 0..=255u8 {
          if let Some(u) = my_unit!() {
            if !m.prepare(0x0200, &[op, e, HALT]) {
              continue;
            }
            let mut rng = Rng::from(&[seed, 12, op as u64, e as u64]);
            let mut n = 0;
            let all = thorough && !sample_mode;
            let count = if all { 65536 } else { EDGE16.len() + 200 };
            for i in 0..count {
              let sp = if all {
                i as u16
              } else if i < EDGE16.len() {
                EDGE16[i]
              } else {
                rng.u16()
              };
              let r = [0x4200 | (((i as u32) & 0xf) << 4), 0x1111, 0x2222, 0x3333, sp as u32, 0x0200, 0];
              m.run(&r, &[op, e], &[u, op as u64, e as u64, sp as u64]);
              n += 1;
            }
            m.ctx.distinct_key(hash_words(&[106, op as u64, e as u64]));
            m.ctx.count("cases:F2-sp-offset", n);
          }
        }
      }
      "LD rr,d16" => {
        for &v in EDGE16.iter() {
          if let Some(u) = my_unit!() {
            if !m.prepare(0x0200, &[op, v as u8, (v >> 8) as u8, HALT]) {
              continue;
            }
            let r = [0x0100, 0x1111, 0x2222, 0x3333, 0x4444, 0x0200, 0];
            m.run(&r, &[op, v as u8, (v >> 8) as u8], &[u, op as u64, v as u64]);
            m.ctx.count("cases:F1-ld16", 1);
          }
        }
      }
      _ => {}
    }
  }
  // CB register forms: value x flags
  for cb in 0..=255u16 {
    let cb = cb as u8;
    if cb & 7 == 6 {
      continue;
    }
    if let Some(u) = my_unit!() {
      if !m.prepare(0x0200, &[0xcb, cb, HALT]) {
        continue;
      }
      let z = cb & 7;
      for v in 0..=255u8 {
        for fl in 0..16u8 {
          let mut r = img(if z == 7 { v } else { 0xa5 }, fl << 4, z, v, 0xc230);
          r[5] = 0x0200;
          m.run(&r, &[0xcb, cb], &[u, 0xcb, cb as u64, v as u64, fl as u64]);
        }
      }
      m.ctx.distinct_key(hash_words(&[107, cb as u64]));
      m.ctx.count("cases:F1-cb-reg", 4096);
    }
  }
  m.ctx.sample("F1/F2: e.g. block [0x98 SBC A,B; HALT] at 0x0200 translated once and run for A x B x 16 flag nibbles (quick: 24 boundary values each; thorough: all 256 x 256); INC/DEC rr over all 65536 values; ADD SP,e8 for all 256 displacements");

  // ---- F3: pointer forms: every value of the pointer register
  let mut ptr_ops: Vec<(Vec<u8>, u8)> = Vec::new(); // (instruction, pointer kind 1=BC 2=DE 3=HL 4=SP 5=C)
  for &(op, k) in [(0x02u8, 1u8), (0x12, 2), (0x22, 3), (0x32, 3), (0x0a, 1), (0x1a, 2), (0x2a, 3), (0x3a, 3), (0x34, 3), (0x35, 3), (0xe2, 5), (0xf2, 5)].iter() {
    ptr_ops.push((vec![op], k));
  }
  ptr_ops.push((vec![0x36, 0x5a], 3));
  ptr_ops.push((vec![0x36, 0x00], 3));
  for op in 0x70u8..=0x77 {
    if op != 0x76 {
      ptr_ops.push((vec![op], 3));
    }
  }
  for y in 0..8u8 {
    if y != 6 {
      ptr_ops.push((vec![0x46 | (y << 3)], 3));
    }
    ptr_ops.push((vec![0x86 | (y << 3)], 3));
  }
  for cb in 0..=255u16 {
    if cb & 7 == 6 {
      ptr_ops.push((vec![0xcb, cb as u8], 3));
    }
  }
  for &op in [0xc5u8, 0xd5, 0xe5, 0xf5, 0xc1, 0xd1, 0xe1, 0xf1].iter() {
    ptr_ops.push((vec![op], 4));
  }
  for (instr, kind) in ptr_ops.iter() {
    let chunks: u32 = if *kind == 5 { 1 } else { 16 };
    for chunk in 0..chunks {
      if let Some(u) = my_unit!() {
        let block = block_of(instr);
        if !m.prepare(0x0300, &block) {
          continue;
        }
        let mut rng = Rng::from(&[seed, 13, instr[0] as u64, instr.len() as u64 * 256 + *instr.last().unwrap() as u64, chunk as u64]);
        // CB (HL) forms: quick tier samples the chunk, thorough sweeps it
        let step: u32 = if instr[0] == 0xcb && !thorough { 16 } else if sample_mode { 8 } else { 1 };
        let span: u32 = if *kind == 5 { 256 } else { 4096 };
        let mut n = 0;
        let mut i = 0u32;
        while i < span {
          let ptr = ((chunk << 12) | i) as u16;
          let a = rng.edgy_u8();
          let fl = rng.u8() & 0xf0;
          let mut r = [((a as u32) << 8) | fl as u32, 0xc210, 0xc220, 0xc230, 0xdff0, 0x0300, 0];
          r[1] = ((rng.edgy_u8() as u32) << 8) | rng.edgy_u8() as u32;
          r[2] = ((rng.edgy_u8() as u32) << 8) | rng.edgy_u8() as u32;
          match *kind {
            1 => r[1] = ptr as u32,
            2 => r[2] = ptr as u32,
            3 => r[3] = ptr as u32,
            4 => r[4] = ptr as u32,
            _ => r[1] = (r[1] & 0xff00) | (ptr as u32 & 0xff),
          }
          m.run(&r, instr, &[u, instr[0] as u64, *instr.last().unwrap() as u64, ptr as u64]);
          n += 1;
          i += step;
        }
        m.ctx.distinct_key(hash_words(&[108, instr[0] as u64, *instr.last().unwrap() as u64, chunk as u64]));
        m.ctx.count("cases:F3-pointer-sweep", n);
      }
    }
  }
  // immediate-address forms: a16 / a8 need one translation per address
  for &op in [0xeau8, 0xfa, 0x08, 0xe0, 0xf0].iter() {
    let wide = op == 0xea || op == 0xfa || op == 0x08;
    let chunks = if wide { 256u32 } else { 1 };
    for chunk in 0..chunks {
      if let Some(u) = my_unit!() {
        let mut rng = Rng::from(&[seed, 14, op as u64, chunk as u64]);
        let step = if wide && !thorough { 8 } else { 1 };
        let mut n = 0;
        let mut lo = 0u32;
        while lo < 256 {
          // quick tier: every 8th address plus both ends of each 256-byte page
          let lo_eff = if step > 1 && lo + step >= 256 { 255 } else { lo };
          let addr = ((chunk << 8) | lo_eff) as u16;
          let instr: Vec<u8> = if wide { vec![op, addr as u8, (addr >> 8) as u8] } else { vec![op, lo_eff as u8] };
          let block = block_of(&instr);
          if m.prepare(0x0300, &block) {
            let a = rng.edgy_u8();
            let r = [((a as u32) << 8) | (rng.u8() & 0xf0) as u32, 0xc210, 0xc220, 0xc230, rng.u16() as u32, 0x0300, 0];
            m.run(&r, &instr, &[u, op as u64, addr as u64]);
            n += 1;
          }
          lo += step;
        }
        m.ctx.distinct_key(hash_words(&[109, op as u64, chunk as u64]));
        m.ctx.count("cases:F3-immediate-address", n);
      }
    }
  }
  m.ctx.sample("F3: e.g. block [0x22 LD (HL+),A; HALT] run for HL = every value 0x0000..0xFFFF (writes land on bank registers, VRAM, cart RAM, work RAM, echo, OAM, I/O, HRAM, IE); LD (a16),SP for a16 over the address space");

  // ---- F4: control flow
  for &op in [0x18u8, 0x20, 0x28, 0x30, 0x38].iter() {
    for &at in [0x0000u16, 0x0001, 0x0080, 0x3ff0, 0x3ffe, 0x4000, 0x7f00, 0x7ffe].iter() {
      if let Some(u) = my_unit!() {
        let mut n = 0;
        for e in 0..=255u8 {
          if !m.prepare(at, &[op, e]) {
            continue;
          }
          for fl in 0..16u8 {
            let r = [0x5a00 | ((fl as u32) << 4), 0xc210, 0xc220, 0xc230, 0xdff0, at as u32, 0];
            m.run(&r, &[op, e], &[u, op as u64, e as u64, at as u64, fl as u64]);
            n += 1;
          }
        }
        m.ctx.distinct_key(hash_words(&[110, op as u64, at as u64]));
        m.ctx.count("cases:F4-jr-all-displacements", n);
      }
    }
  }
  for &op in [0xc3u8, 0xc2, 0xca, 0xd2, 0xda, 0xcd, 0xc4, 0xcc, 0xd4, 0xdc].iter() {
    for &at in [0x0150u16, 0x3ffd, 0x4000, 0x7ffd].iter() {
      if let Some(u) = my_unit!() {
        let mut n = 0;
        for &t in EDGE16.iter() {
          let instr = [op, t as u8, (t >> 8) as u8];
          if !m.prepare(at, &instr) {
            continue;
          }
          for fl in 0..16u8 {
            for &sp in [0xdff0u16, 0xc002, 0x0001, 0xff11].iter() {
              let r = [0x5a00 | ((fl as u32) << 4), 0xc210, 0xc220, 0xc230, sp as u32, at as u32, 0];
              m.run(&r, &instr, &[u, op as u64, t as u64, at as u64, fl as u64, sp as u64]);
              n += 1;
            }
          }
        }
        m.ctx.distinct_key(hash_words(&[111, op as u64, at as u64]));
        m.ctx.count("cases:F4-jp-call-targets", n);
      }
    }
  }
  // stack-using terminators and JP HL over every SP / HL value
  let sweep_ops: [u8; 19] = [0xcd, 0xc9, 0xd9, 0xc0, 0xc8, 0xd0, 0xd8, 0xc4, 0xdc, 0xc7, 0xcf, 0xd7, 0xdf, 0xe7, 0xef, 0xf7, 0xff, 0xe9, 0xcc];
  for &op in sweep_ops.iter() {
    for chunk in 0..16u32 {
      if let Some(u) = my_unit!() {
        let info = refcpu::info(op, 0);
        let instr: Vec<u8> = if info.len == 3 { vec![op, 0x34, 0x12] } else { vec![op] };
        if !m.prepare(0x0400, &instr) {
          continue;
        }
        let step = if sample_mode { 8 } else { 1 };
        let mut n = 0;
        let mut i = 0;
        while i < 4096u32 {
          let v = (chunk << 12) | i;
          let fls: &[u32] = if info.conditional { &[0x00, 0xf0] } else { &[0x90] };
          for &fl in fls.iter() {
            let mut r = [0x5a00 | fl, 0xc210, 0xc220, 0xc230, 0xdff0, 0x0400, 0];
            if op == 0xe9 {
              r[3] = v;
            } else {
              r[4] = v;
            }
            m.run(&r, &instr, &[u, op as u64, v as u64]);
            n += 1;
          }
          i += step;
        }
        m.ctx.distinct_key(hash_words(&[112, op as u64, chunk as u64]));
        m.ctx.count("cases:F4-stack-terminators-all-sp", n);
      }
    }
  }
  // EI / DI / HALT / STOP / RETI with flags and placements
  for &op in [0xfbu8, 0xf3, 0x76, 0x10, 0xd9].iter() {
    if let Some(u) = my_unit!() {
      for &at in [0x0000u16, 0x0150, 0x3ffe, 0x4000, 0x7ffe].iter() {
        let instr: Vec<u8> = if op == 0x10 { vec![0x10, 0x00] } else { vec![op] };
        if !m.prepare(at, &instr) {
          continue;
        }
        for fl in 0..16u32 {
          let r = [0x5a00 | (fl << 4), 0xc210, 0xc220, 0xc230, 0xdff0, at as u32, 0];
          m.run(&r, &instr, &[u, op as u64, at as u64, fl as u64]);
        }
        m.ctx.count("cases:F4-status-terminators", 16);
      }
    }
  }
  m.ctx.sample("F4: JR/JR cc with all 256 displacements from 0x0000,0x0001,0x0080,0x3FF0,0x3FFE,0x4000,0x7F00,0x7FFE x 16 flag nibbles; CALL/RET/RST/RETI at every SP; JP HL at every HL; EI/DI/HALT/STOP/RETI status codes");

  // ---- F5: each kind of terminator after each kind of preceding instruction
  let terminators: Vec<Vec<u8>> = vec![
    vec![0xc3, 0x00, 0x02],
    vec![0xca, 0x00, 0x02],
    vec![0xe9],
    vec![0x18, 0x05],
    vec![0x30, 0xfb],
    vec![0xcd, 0x00, 0x03],
    vec![0xd4, 0x00, 0x03],
    vec![0xc9],
    vec![0xd8],
    vec![0xd9],
    vec![0xef],
    vec![0xfb],
    vec![0xf3],
    vec![0x76],
    vec![0x10, 0x00],
  ];
  let preceding: Vec<Vec<u8>> = vec![
    vec![0x00],
    vec![0x3c],
    vec![0x87],
    vec![0x77],
    vec![0x7e],
    vec![0xc5],
    vec![0xe1],
    vec![0xcb, 0x46],
    vec![0xcb, 0xc6],
    vec![0xe0, 0x80],
    vec![0x08, 0x00, 0xc3],
    vec![0xf8, 0xfe],
    vec![0x27],
    vec![0x09],
  ];
  for (ti, t) in terminators.iter().enumerate() {
    if let Some(u) = my_unit!() {
      for pre in preceding.iter() {
        let mut block = pre.clone();
        block.extend_from_slice(t);
        for &at in [0x0500u16, 0x4500].iter() {
          if !m.prepare(at, &block) {
            continue;
          }
          for fl in 0..16u32 {
            let r = [0x9900 | (fl << 4), 0x1234, 0xc220, 0xc230, 0xdfe0, at as u32, 0];
            m.run_named(&r, &format!("{}+{}", opname(pre), opname(t)), pre, &[u, ti as u64, pre[0] as u64, at as u64, fl as u64]);
          }
          m.ctx.count("cases:F5-instruction-then-terminator", 16);
        }
        m.ctx.distinct_key(hash_words(&[113, ti as u64, pre[0] as u64, pre.len() as u64]));
      }
    }
  }

  // ---- F7: every ordered pair of instructions (host state leaking from one
  // template into the next: flags, scratch registers, stack slots)
  {
    let mut singles: Vec<Vec<u8>> = Vec::new();
    for op in 0..=255u16 {
      let op = op as u8;
      if refcpu::is_undefined(op) || op == 0xcb || is_terminator(op) {
        continue;
      }
      let info = refcpu::info(op, 0);
      let v = match info.len {
        1 => vec![op],
        2 => vec![op, if op == 0xe0 || op == 0xf0 { 0x85 } else { 0x9a }],
        _ => {
          if op == 0x01 || op == 0x11 || op == 0x21 || op == 0x31 {
            vec![op, 0x40, 0xc3] // LD rr,0xC340: keeps pointers in work RAM
          } else {
            vec![op, 0x44, 0xc3]
          }
        }
      };
      singles.push(v);
    }
    // one CB instruction of every kind on a register and on (HL)
    for &cb in [0x00u8, 0x0e, 0x11, 0x1e, 0x22, 0x2e, 0x33, 0x3e, 0x46, 0x7c, 0x86, 0x9d, 0xc6, 0xff].iter() {
      singles.push(vec![0xcb, cb]);
    }
    let stride: usize = if thorough && !sample_mode { 1 } else { 5 };
    for (i, first) in singles.iter().enumerate() {
      if let Some(u) = my_unit!() {
        let mut n = 0;
        let mut j = (i * 3) % stride;
        while j < singles.len() {
          let second = &singles[j];
          let mut block = first.clone();
          block.extend_from_slice(second);
          block.extend_from_slice(&[0xc3, 0x00, 0x02]); // JP 0x0200: a terminator that sets no status
          if m.prepare(0x0600, &block) {
            for &fl in [0x00u32, 0xf0, 0x50, 0xa0].iter() {
              let r = [0x9a00 | fl, 0xc210, 0xc228, 0xc230, 0xdfe0, 0x0600, 0];
              m.run_named(&r, &format!("{}+{}", opname(first), opname(second)), first, &[u, first[0] as u64, second[0] as u64, j as u64]);
              n += 1;
            }
          }
          j += stride;
        }
        m.ctx.distinct_key(hash_words(&[115, i as u64]));
        m.ctx.count("cases:F7-ordered-pairs", n);
      }
    }
    m.ctx.sample("F7: ordered pairs of instructions (all unprefixed non-terminators + 14 CB kinds; quick: every 5th second instruction, thorough: all ~66 000 pairs) followed by JP, 4 flag states, pointers in work RAM");
  }

  // ---- F8: control-flow instructions cut by the end of ROM: the opcode is the last (or the
  // last but one) byte of the switchable bank, the operand bytes lie in video RAM
  {
    let ops: [(u8, usize); 15] = [
      (0x18, 2), (0x20, 2), (0x28, 2), (0x30, 2), (0x38, 2), (0xc3, 3), (0xc2, 3), (0xca, 3), (0xd2, 3), (0xda, 3), (0xcd, 3), (0xc4, 3), (0xcc, 3), (0xd4, 3), (0xdc, 3),
    ];
    for (oi, &(op, len)) in ops.iter().enumerate() {
      if let Some(u) = my_unit!() {
        let mut n = 0;
        let mut rng = Rng::from(&[seed, 0xf8, op as u64]);
        for back in 1..len {
          let at = 0x8000u16 - back as u16;
          for _ in 0..12 {
            let operand = [rng.edgy_u8(), rng.u8() & 0x7f];
            let mut block = vec![op];
            block.extend_from_slice(&operand[..len - 1]);
            if m.prepare(at, &block) {
              for &fl in [0x00u32, 0xf0, 0x50, 0xa0].iter() {
                let r = [0x9a00 | fl, 0xc210, 0xc228, 0xc230, 0xdfe0, at as u32, 0];
                m.run_named(&r, &format!("{}@end-of-rom", opname(&block)), &block, &[u, op as u64, at as u64, 0]);
                n += 1;
              }
            }
          }
        }
        m.ctx.distinct_key(hash_words(&[118, oi as u64]));
        m.ctx.count("cases:F8-cut-by-end-of-rom", n);
      }
    }
    m.ctx.sample("F8: JR/JP/CALL (conditional and not) with the opcode at 0x7FFE/0x7FFF of the switchable bank and the operand bytes in video RAM");
  }

  // ---- F9: blocks as long as a bank: N x one one-byte instruction + a terminator from 0x4000,
  // with and without cycles carried in (PUSH BC from SP=0xFFFE: 4 machine cycles per byte,
  // 65533 for the longest block, 65538 with the 5 cycles of a dispatch carried in)
  {
    let fills: [u8; 5] = [0xc5, 0x7e, 0x34, 0x3c, 0x00];
    let lengths: [usize; 6] = [4000, 12000, 15359, 15360, 15361, 16383];
    for (fi, &fill) in fills.iter().enumerate() {
      if let Some(u) = my_unit!() {
        let mut n = 0;
        for &len in lengths.iter() {
          for &term in [0xe9u8, 0xc9].iter() {
            let mut block = vec![fill; len];
            block.push(term);
            if m.prepare(0x4000, &block) {
              for &cyc in [0u32, 5].iter() {
                let r = [0x1200, 0x0000, 0xc228, 0xc230, 0xfffe, 0x4000, cyc];
                let name = format!("{}x{:02X}+{:02X}", len, fill, term);
                m.run_named(&r, &name, &[fill], &[u, fill as u64, len as u64, term as u64]);
                n += 1;
              }
            }
          }
        }
        m.ctx.distinct_key(hash_words(&[119, fi as u64]));
        m.ctx.count("cases:F9-bank-long-blocks", n);
      }
    }
    m.ctx.sample("F9: 4000..16383 x PUSH BC / LD A,(HL) / INC (HL) / INC A / NOP closed by JP (HL) or RET, from 0x4000, entry cycles 0 and 5 (up to 65538 machine cycles in one block)");
  }

  // ---- F6: random straight-line blocks of 1..64 instructions
  let nblocks: u64 = if sample_mode { 300 } else if thorough { 60_000 } else { 4_000 };
  let units = 64u64;
  for bu in 0..units {
    if let Some(u) = my_unit!() {
      let mut rng = Rng::from(&[seed, 15, bu]);
      m.keep_log = true;
      m.log.clear();
      m.p.rebuild();
      for bi in 0..nblocks / units {
        if m.log.len() >= 2048 {
          m.p.rebuild();
          m.log.clear();
        }
        let (at, instrs, block) = random_block(&mut rng);
        if !m.prepare(at, &block) {
          continue;
        }
        let regs = random_regs(&mut rng, at);
        let total: usize = instrs.len();
        let first = instrs[0].clone();
        let log_before = m.log.len();
        let sigs = m.run_named(&regs, "block", &[0x00], &[u, bi, at as u64, total as u64]);
        m.ctx.count("cases:F6-random-blocks", 1);
        m.ctx.count("instructions-in-random-blocks", total as u64);
        m.ctx.distinct_key(hash_words(&[114, bu, bi]));
        if m.ctx.want_sample() && rng.chance(1, 200) {
          m.ctx.sample(&format!("F6: random block at {:04X}: [{}] from {}", at, support::hexbytes(&block), support::fmt_regs(&regs)));
        }
        if let Some(_sigs) = sigs {
          // attribution: replay the history on fresh cores and grow the block
          // one instruction at a time until the engines diverge
          let _ = (first, log_before);
          if m.bisections < 12 {
            m.bisections += 1;
            m.ctx.note(&format!(
              "random block diverged (signatures carry op=00 = 'whole block'): at {:04X} [{}] from {}",
              at,
              support::hexbytes(&block),
              support::fmt_regs(&regs)
            ));
          }
        }
      }
      m.keep_log = false;
    }
  }

  m.p.drop_file();
  m.ctx.count("evaluations", m.evaluations);
  m.ctx.count("translations", m.p.translations);
  m.ctx.count("cache-resets", m.p.cache_resets);
  m.ctx.count("core-rebuilds", m.p.rebuilds);
  m.ctx.count("bus-writes-compared", m.writes_compared);
  m.ctx.count("device-state-digests", m.light_digests);
  m.ctx.count("full-state-digests", m.full_digests);
  m.ctx.count("excluded:bank-write-in-banked-block", m.excluded_bank);
  m.ctx.count("excluded:interpreter-panicked", m.excluded_interp_panic);
  m.ctx.count("excluded:translation-panicked", m.excluded_translate_panic);
  let _ = unit;
}

fn random_regs(rng: &mut Rng, at: u16) -> [u32; 7] {
  let ptr = |rng: &mut Rng| -> u32 {
    match rng.below(10) {
      0 => 0x8000 + rng.below(0x2000) as u32,
      1 => 0xa000 + rng.below(0x2000) as u32,
      2 | 3 | 4 => 0xc000 + rng.below(0x2000) as u32,
      5 => 0xfe00 + rng.below(0xa0) as u32,
      6 => 0xff80 + rng.below(0x7f) as u32,
      7 => *rng.pick(&EDGE16) as u32,
      8 => 0xff00 + rng.below(0x80) as u32,
      _ => rng.u16() as u32,
    }
  };
  let sp = match rng.below(8) {
    0 => *rng.pick(&EDGE16) as u32,
    1 => 0xff80 + rng.below(0x7f) as u32,
    _ => 0xc100 + rng.below(0x1e00) as u32,
  };
  [
    ((rng.edgy_u8() as u32) << 8) | (rng.u8() & 0xf0) as u32,
    ptr(rng),
    ptr(rng),
    ptr(rng),
    sp,
    at as u32,
    if rng.chance(1, 4) { 5 } else { 0 },
  ]
}

/// 1..64 random non-terminating defined instructions followed by a random terminator
fn random_block(rng: &mut Rng) -> (u16, Vec<Vec<u8>>, Vec<u8>) {
  let n = match rng.below(4) {
    0 => 1 + rng.below(3),
    1 => 1 + rng.below(8),
    2 => 1 + rng.below(24),
    _ => 1 + rng.below(64),
  } as usize;
  let mut instrs: Vec<Vec<u8>> = Vec::new();
  let safe_addr = |rng: &mut Rng| -> u16 {
    match rng.below(6) {
      0 => 0x8000 + rng.below(0x2000) as u16,
      1 => 0xa000 + rng.below(0x2000) as u16,
      2 | 3 => 0xc000 + rng.below(0x2000) as u16,
      4 => 0xff80 + rng.below(0x7e) as u16,
      _ => *rng.pick(&EDGE16[..56]), // not 0xFFFF: LD (0xFFFF),SP aborts in both engines (C11)
    }
  };
  while instrs.len() < n {
    let op = rng.u8();
    if refcpu::is_undefined(op) {
      continue;
    }
    let second = rng.u8();
    let info = refcpu::info(op, second);
    if info.block_end {
      continue;
    }
    let mut v = vec![op];
    match info.len {
      2 => {
        if op == 0xcb {
          v.push(second);
        } else {
          v.push(rng.edgy_u8());
        }
      }
      3 => {
        let a = safe_addr(rng);
        let a = if op == 0x08 && a == 0xffff { 0xc000 } else { a };
        v.push(a as u8);
        v.push((a >> 8) as u8);
      }
      _ => {}
    }
    instrs.push(v);
  }
  let term: Vec<u8> = match rng.below(15) {
    0 => vec![0xc3, rng.u8(), rng.u8() & 0x7f],
    1 => vec![*rng.pick(&[0xc2u8, 0xca, 0xd2, 0xda]), rng.u8(), rng.u8()],
    2 => vec![0xe9],
    3 => vec![0x18, rng.u8()],
    4 => vec![*rng.pick(&[0x20u8, 0x28, 0x30, 0x38]), rng.u8()],
    5 => vec![0xcd, rng.u8(), rng.u8()],
    6 => vec![*rng.pick(&[0xc4u8, 0xcc, 0xd4, 0xdc]), rng.u8(), rng.u8()],
    7 => vec![0xc9],
    8 => vec![*rng.pick(&[0xc0u8, 0xc8, 0xd0, 0xd8])],
    9 => vec![0xd9],
    10 => vec![0xc7 | (rng.u8() & 0x38)],
    11 => vec![0xfb],
    12 => vec![0xf3],
    13 => vec![0x76],
    _ => vec![0x10, 0x00],
  };
  let mut block: Vec<u8> = Vec::new();
  for i in instrs.iter() {
    block.extend_from_slice(i);
  }
  block.extend_from_slice(&term);
  // placement: anywhere in bank 0 or the switchable bank such that the block fits
  // and no instruction straddles 0x3FFF/0x4000
  let len = block.len() as u16;
  let at = match rng.below(6) {
    0 => 0x0000,
    1 => 0x4000,
    2 => 0x8000 - len,
    3 => 0x4000 - len, // ends exactly at the bank boundary
    4 => 0x0150 + rng.below(0x3000) as u16,
    _ => 0x4000 + rng.below(0x3000) as u16,
  };
  instrs.push(term);
  (at, instrs, block)
}

pub fn on_crash(intent: &[u64], text: &str, status: &str, _err: &str) -> Option<(String, String)> {
  // phase 1 = the interpreter was running: the case is outside C01's domain
  // (both engines would die; C05/C11 report it). Phase 2 = translated code.
  if intent[10] == 1 {
    return Some((
      "C01:excluded:interpreter-killed-the-process".to_string(),
      format!("the interpreter itself killed the process ({} {}) for case {:X?}", status, text, &intent[..6]),
    ));
  }
  let op = if intent[1] == 0xcb { format!("CB{:02X}", intent[2]) } else { format!("{:02X}", intent[1]) };
  Some((
    format!("C01:op={}:host:process-killed:{}:{}", op, status.replace(' ', ""), text),
    format!("translated code (or a helper it called) killed the process; case {:X?}", &intent[..6]),
  ))
}
