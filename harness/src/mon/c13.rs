//! C13 - DIV/TIMA follow the 16-bit divider, the TAC glitch, reload + single
//! request on overflow, and independence of catch-up batching.

use crate::devices::io::IO;
use crate::devices::timer::Timer;
use crate::rt::{hash_words, Ctx, Rng};
use crate::timing::ClockCycles;

#[derive(Clone, Copy, Debug, PartialEq, Eq)]
pub struct RefTimer {
  pub div: u16,
  pub tima: u8,
  pub tma: u8,
  pub tac: u8,
}

fn sel_bit(tac: u8) -> u16 {
  match tac & 3 {
    1 => 1 << 3,
    2 => 1 << 5,
    3 => 1 << 7,
    _ => 1 << 9,
  }
}

impl RefTimer {
  fn selected(&self) -> bool {
    self.tac & 4 != 0 && self.div & sel_bit(self.tac) != 0
  }
  fn inc(&mut self) -> bool {
    if self.tima == 0xff {
      self.tima = self.tma;
      true
    } else {
      self.tima += 1;
      false
    }
  }
  /// one clock; returns true when the timer interrupt is requested
  pub fn clock(&mut self) -> bool {
    let before = self.selected();
    self.div = self.div.wrapping_add(1);
    if before && !self.selected() {
      return self.inc();
    }
    false
  }
  pub fn run(&mut self, n: u32) -> bool {
    let mut irq = false;
    for _ in 0..n {
      irq |= self.clock();
    }
    irq
  }
  /// closed form of `run`
  pub fn run_closed(&mut self, n: u32) -> bool {
    let t = self.div as u64;
    let end = t + n as u64;
    let mut irq = false;
    if self.tac & 4 != 0 {
      let p = (sel_bit(self.tac) as u64) << 1; // falling edges at multiples of the period
      let mut k = end / p - t / p;
      let room = 256 - self.tima as u64;
      if k < room {
        self.tima += k as u8;
      } else {
        k -= room;
        irq = true;
        let period = 256 - self.tma as u64;
        self.tima = (self.tma as u64 + k % period) as u8;
      }
    }
    self.div = end as u16;
    irq
  }
  pub fn write_tac(&mut self, v: u8) -> bool {
    let before = self.selected();
    self.tac = v;
    if before && !self.selected() {
      return self.inc();
    }
    false
  }
}

/// request bits other than the timer's (bit 2) that the timer ever returned
static FOREIGN_BITS: std::sync::atomic::AtomicU8 = std::sync::atomic::AtomicU8::new(0);

/// the timer may request the timer interrupt and nothing else
fn timer_request(flags: u8) -> bool {
  if flags & !4 != 0 {
    FOREIGN_BITS.fetch_or(flags & !4, std::sync::atomic::Ordering::Relaxed);
  }
  flags & 4 != 0
}

#[derive(Clone, Debug)]
enum Act {
  Div,
  Tima(u8),
  Tma(u8),
  Tac(u8),
  Elapse(u32),
}

fn fmt_hist(h: &[Act], upto: usize) -> String {
  let mut s = String::new();
  for a in h.iter().take(upto + 1) {
    s.push_str(&match a {
      Act::Div => "DIV=0 ".to_string(),
      Act::Tima(v) => format!("TIMA={:02X} ", v),
      Act::Tma(v) => format!("TMA={:02X} ", v),
      Act::Tac(v) => format!("TAC={:02X} ", v),
      Act::Elapse(n) => format!("+{} ", n),
    });
  }
  s
}

/// run a history on a Timer with the given partitioning of elapsed time;
/// returns per action (div, tima, irq) and whether a DIV write happened while the selected bit was high
fn run_impl(h: &[Act], mode: u8, rng: &mut Rng, phase: u32) -> Vec<(u8, u8, bool)> {
  let mut t = Timer::new();
  t.verif_set_cycle_count(phase);
  let mut out = Vec::with_capacity(h.len());
  for a in h.iter() {
    let mut irq = false;
    match a {
      Act::Div => t.reset_divider(),
      Act::Tima(v) => t.set_counter(*v),
      Act::Tma(v) => t.set_modulo(*v),
      Act::Tac(v) => irq = timer_request(t.set_timer_control(*v).as_u8()),
      Act::Elapse(n) => {
        let mut left = *n;
        while left > 0 {
          let chunk = match mode {
            0 => 1,
            1 => left,
            _ => (1 + rng.below(5000) as u32).min(left),
          };
          irq |= timer_request(t.run_cycles(ClockCycles(chunk as usize)).as_u8());
          left -= chunk;
        }
      }
    }
    out.push((t.get_divider(), t.get_counter(), irq));
  }
  out
}

pub fn run(ctx: &mut Ctx) {
  let thorough = ctx.thorough();
  let seed = ctx.seed;
  let mut evaluations = 0u64;
  let mut overflows = 0u64;
  let mut glitches = 0u64;
  let mut accept_div = 0u64;
  let mut long_batches = 0u64;
  let mut very_long_batches = 0u64;
  let mut bus_dma_starts = 0u64;
  let mut bus_overflows = 0u64;
  let mut unit = 0u64;

  // ---- (1) every TAC value x every divider phase x batch lengths around every period
  let mut lengths: Vec<u32> = vec![1, 2, 3, 4, 5, 7, 8, 12, 15, 16, 17, 63, 64, 65, 255, 256, 257, 1023, 1024, 1025, 4095, 4096, 4100, 65535, 65536, 65540, 70224];
  if thorough {
    lengths.extend_from_slice(&[20, 100, 456, 1000, 2047, 2048, 16384, 131072, 200000]);
  }
  for tac in 0..8u8 {
    for chunk in 0..64u32 {
      let u = unit;
      unit += 1;
      if !ctx.mine(u) {
        continue;
      }
      ctx.intent2(u, 1);
      let mut rng = Rng::from(&[seed, 13, tac as u64, chunk as u64]);
      for p in 0..1024u32 {
        let phase = chunk * 1024 + p;
        // long batches on a sample of phases only (the implementation is per-clock)
        for (li, &n) in lengths.iter().enumerate() {
          // (one residue class per length; the two classes are independent of each
          // other - an earlier version required both at once, which no length > 5000
          // could satisfy, so the very long batches silently never ran)
          if n > 5000 {
            if p % 512 != (li as u32 * 37) % 512 {
              continue;
            }
            very_long_batches += 1;
          } else if n > 300 {
            if p % 64 != (li as u32 * 7) % 64 {
              continue;
            }
            long_batches += 1;
          }
          let tima0 = rng.edgy_u8();
          let tma0 = rng.edgy_u8();
          let mut t = Timer::new();
          t.set_timer_control(tac);
          t.verif_set_cycle_count(phase);
          t.set_counter(tima0);
          t.set_modulo(tma0);
          let irq = timer_request(t.run_cycles(ClockCycles(n as usize)).as_u8());
          let mut r = RefTimer { div: phase as u16, tima: tima0, tma: tma0, tac };
          let want_irq = r.run_closed(n);
          evaluations += 1;
          if want_irq {
            overflows += 1;
          }
          if t.get_divider() != (r.div >> 8) as u8 || t.get_counter() != r.tima || irq != want_irq || t.verif_cycle_count() != r.div as u32 {
            let field = if t.get_divider() != (r.div >> 8) as u8 || t.verif_cycle_count() != r.div as u32 {
              "div"
            } else if t.get_counter() != r.tima {
              "tima"
            } else {
              "irq"
            };
            ctx.violation(
              &format!("C13:batch:{}:tac={}", field, tac),
              &format!(
                "TAC={} phase={:04X} TIMA={:02X} TMA={:02X} +{} clocks: timer DIV={:02X} TIMA={:02X} irq={} phase={:04X}; reference DIV={:02X} TIMA={:02X} irq={}",
                tac, phase, tima0, tma0, n, t.get_divider(), t.get_counter(), irq, t.verif_cycle_count(), (r.div >> 8) as u8, r.tima, want_irq
              ),
            );
          }
        }
      }
      ctx.distinct_key(hash_words(&[1, tac as u64, chunk as u64]));
    }
  }
  ctx.sample("TAC=5, divider phase 0x000F, TIMA=0xFF, TMA=0x80, one batch of 1 clock: falling edge of bit 3 -> TIMA reloads 0x80 and the timer interrupt is requested once");

  // ---- (2) every TAC -> TAC transition at every phase of the low 10 bits (glitch)
  {
    let u = unit;
    unit += 1;
    if ctx.mine(u) {
      ctx.intent2(u, 2);
      for old in 0..8u8 {
        for new in 0..8u8 {
          for phase in 0..2048u32 {
            for &tima0 in [0x00u8, 0xfe, 0xff].iter() {
              let mut t = Timer::new();
              t.set_timer_control(old);
              t.verif_set_cycle_count(phase);
              t.set_counter(tima0);
              t.set_modulo(0x42);
              let irq = timer_request(t.set_timer_control(new).as_u8());
              let mut r = RefTimer { div: phase as u16, tima: tima0, tma: 0x42, tac: old };
              let want = r.write_tac(new);
              evaluations += 1;
              if r.tima != tima0 {
                glitches += 1;
              }
              if t.get_counter() != r.tima || irq != want || t.get_timer_control() & 7 != new {
                ctx.violation(
                  &format!("C13:tac-write:{}->{}", old, new),
                  &format!("TAC {}->{} at phase {:04X}, TIMA={:02X}: timer TIMA={:02X} irq={}; reference TIMA={:02X} irq={}", old, new, phase, tima0, t.get_counter(), irq, r.tima, want),
                );
              }
            }
          }
          ctx.distinct_key(hash_words(&[2, old as u64, new as u64]));
        }
      }
      ctx.sample("TAC 6 -> 2 (disable) at phase 0x003F with bit 5 high: TIMA must increment once (falling edge made by the write)");
    }
  }

  // ---- (3) random histories: per-clock vs one batch vs random partition vs reference; also through IO
  let nhist: u64 = if thorough { 3_000_000 } else { 6_000 };
  for hi in 0..nhist {
    let u = unit;
    unit += 1;
    if !ctx.mine(u) {
      continue;
    }
    ctx.intent2(u, 3);
    let mut rng = Rng::from(&[seed, 133, hi]);
    let len = 10 + rng.below(60) as usize;
    let mut h: Vec<Act> = Vec::with_capacity(len);
    for _ in 0..len {
      h.push(match rng.below(10) {
        0 => Act::Div,
        1 => Act::Tima(rng.edgy_u8()),
        2 => Act::Tma(rng.edgy_u8()),
        3 | 4 => Act::Tac(rng.u8()),
        5 => {
          if rng.chance(1, 8) {
            Act::Elapse(60_000 + rng.below(150_000) as u32) // more than one revolution of the 16-bit divider
          } else {
            Act::Elapse(4 * (1 + rng.below(1200) as u32))
          }
        }
        6 => Act::Elapse(1 + rng.below(20) as u32),
        _ => Act::Elapse(1 + rng.below(3000) as u32),
      });
    }
    let phase = rng.below(0x10000) as u32;
    // reference, per clock; DIV writes with the selected bit high are an open point
    let mut r = RefTimer { div: phase as u16, tima: 0, tma: 0, tac: 0 };
    let mut want: Vec<(u8, u8, bool, bool)> = Vec::with_capacity(len); // (div, tima, irq, ambiguous-from-here)
    let mut ambiguous = false;
    for a in h.iter() {
      let mut irq = false;
      match a {
        Act::Div => {
          if r.selected() {
            ambiguous = true; // hardware would count an edge; the statement only names the TAC case
          }
          r.div = 0;
        }
        Act::Tima(v) => r.tima = *v,
        Act::Tma(v) => r.tma = *v,
        Act::Tac(v) => irq = r.write_tac(*v),
        Act::Elapse(n) => irq = if *n > 5000 { r.run_closed(*n) } else { r.run(*n) },
      }
      want.push(((r.div >> 8) as u8, r.tima, irq, ambiguous));
    }
    let a0 = run_impl(&h, 0, &mut rng, phase);
    let a1 = run_impl(&h, 1, &mut rng, phase);
    let a2 = run_impl(&h, 2, &mut rng, phase);
    evaluations += 3 * len as u64;
    for i in 0..len {
      if a0[i] != a1[i] || a0[i] != a2[i] {
        ctx.violation(
          "C13:history:depends-on-batching",
          &format!("history (phase {:04X}) {}: per-clock {:?}, one batch {:?}, random partition {:?}", phase, fmt_hist(&h, i), a0[i], a1[i], a2[i]),
        );
        break;
      }
      if want[i].3 {
        accept_div += 1;
        // after an ambiguous DIV write only DIV itself stays comparable
        if a0[i].0 != want[i].0 {
          ctx.violation("C13:history:div", &format!("history (phase {:04X}) {}: DIV {:02X}, reference {:02X}", phase, fmt_hist(&h, i), a0[i].0, want[i].0));
          break;
        }
        continue;
      }
      if (a0[i].0, a0[i].1, a0[i].2) != (want[i].0, want[i].1, want[i].2) {
        let field = if a0[i].0 != want[i].0 {
          "div"
        } else if a0[i].1 != want[i].1 {
          "tima"
        } else {
          "irq"
        };
        let kind = match &h[i] {
          Act::Div => "after-div-write",
          Act::Tima(_) => "after-tima-write",
          Act::Tma(_) => "after-tma-write",
          Act::Tac(_) => "after-tac-write",
          Act::Elapse(_) => "after-elapse",
        };
        ctx.violation(
          &format!("C13:history:{}:{}", field, kind),
          &format!("history (phase {:04X}) {}: timer (DIV,TIMA,irq)={:?}, reference {:?}", phase, fmt_hist(&h, i), a0[i], (want[i].0, want[i].1, want[i].2)),
        );
        break;
      }
    }
    // through the I/O decoder (elapsed time in multiples of 4, as the bus delivers it)
    if hi % 4 == 0 {
      let mut io = IO::new();
      let vram = vec![0u8; 0x2000].into_boxed_slice();
      let oam = vec![0u8; 0xa0].into_boxed_slice();
      let mut r = RefTimer { div: 0, tima: 0, tma: 0, tac: 0 };
      let mut amb = false;
      for (i, a) in h.iter().enumerate() {
        match a {
          Act::Div => {
            if r.selected() {
              amb = true;
            }
            r.div = 0;
            io.set_byte(0xff04, 0x55);
          }
          Act::Tima(v) => {
            r.tima = *v;
            io.set_byte(0xff05, *v);
          }
          Act::Tma(v) => {
            r.tma = *v;
            io.set_byte(0xff06, *v);
          }
          Act::Tac(v) => {
            let q = r.write_tac(*v);
            io.set_byte(0xff07, *v);
            if q && !amb && io.interrupt_flag.as_u8() & 4 == 0 {
              ctx.violation("C13:io:tac-glitch-request-lost", &format!("history {}: TAC write overflowed TIMA but IF bit 2 is clear", fmt_hist(&h, i)));
            }
          }
          Act::Elapse(n) => {
            let n4 = (*n / 4).max(1) * 4;
            let q = r.run(n4);
            let before = io.interrupt_flag.as_u8() & 4;
            io.run_clock_cycles(ClockCycles(n4 as usize), &vram, &oam);
            let after = io.interrupt_flag.as_u8() & 4;
            if !amb && before == 0 && (after != 0) != q {
              ctx.violation("C13:io:request", &format!("history {}: IF bit 2 {} after the batch, reference expects request={}", fmt_hist(&h, i), after != 0, q));
              break;
            }
          }
        }
        evaluations += 1;
        if amb {
          break;
        }
        if io.get_byte(0xff04) != (r.div >> 8) as u8 || io.get_byte(0xff05) != r.tima || io.get_byte(0xff06) != r.tma {
          ctx.violation(
            "C13:io:registers",
            &format!("history {}: bus reads DIV={:02X} TIMA={:02X} TMA={:02X}, reference {:02X} {:02X} {:02X}", fmt_hist(&h, i), io.get_byte(0xff04), io.get_byte(0xff05), io.get_byte(0xff06), (r.div >> 8) as u8, r.tima, r.tma),
          );
          break;
        }
        // acknowledge, so that the next request is observable
        if io.interrupt_flag.as_u8() & 4 != 0 {
          io.interrupt_flag.clear(4);
        }
      }
    }
    // through the whole memory bus, as guest code sees the timer: register writes by bus
    // stores, elapsed time delivered to the bus (multiples of 4), in half of the histories
    // with an OAM transfer started from work RAM every few actions - the timer's behaviour
    // must not depend on what else the bus is doing
    if hi % 4 == 1 {
      let mut mem = crate::support::memory_in_ram(0x00, vec![0u8; 0x8000], 0);
      let mp = &mut *mem as *mut crate::mem::MemoryAreas;
      let with_dma = hi % 8 == 1;
      let mut r = RefTimer { div: 0, tima: 0, tma: 0, tac: 0 };
      let mut amb = false;
      for (i, a) in h.iter().enumerate() {
        if with_dma && i % 3 == 0 {
          crate::mem::memory_write_byte(mp, 0xff46, 0xc0 + (i as u8 & 0x0f));
          bus_dma_starts += 1;
        }
        match a {
          Act::Div => {
            if r.selected() {
              amb = true;
            }
            r.div = 0;
            crate::mem::memory_write_byte(mp, 0xff04, 0x55);
          }
          Act::Tima(v) => {
            r.tima = *v;
            crate::mem::memory_write_byte(mp, 0xff05, *v);
          }
          Act::Tma(v) => {
            r.tma = *v;
            crate::mem::memory_write_byte(mp, 0xff06, *v);
          }
          Act::Tac(v) => {
            let q = r.write_tac(*v);
            crate::mem::memory_write_byte(mp, 0xff07, *v);
            if q && !amb && crate::mem::memory_read_byte(mp, 0xff0f) & 4 == 0 {
              ctx.violation("C13:bus:tac-glitch-request-lost", &format!("history {}: TAC write overflowed TIMA but IF bit 2 is clear", fmt_hist(&h, i)));
            }
          }
          Act::Elapse(n) => {
            let n4 = (*n / 4).max(1) * 4;
            let q = r.run(n4);
            let before = crate::mem::memory_read_byte(mp, 0xff0f) & 4;
            mem.run_clock_cycles(ClockCycles(n4 as usize));
            let after = crate::mem::memory_read_byte(mp, 0xff0f) & 4;
            if q {
              bus_overflows += 1;
            }
            if !amb && before == 0 && (after != 0) != q {
              ctx.violation(
                if with_dma { "C13:bus:request:transfer-in-progress" } else { "C13:bus:request" },
                &format!("history {} (bus level{}): IF bit 2 {} after the batch, reference expects request={}", fmt_hist(&h, i), if with_dma { ", OAM transfers in progress" } else { "" }, after != 0, q),
              );
              break;
            }
          }
        }
        evaluations += 1;
        if amb {
          break;
        }
        let got = (crate::mem::memory_read_byte(mp, 0xff04), crate::mem::memory_read_byte(mp, 0xff05), crate::mem::memory_read_byte(mp, 0xff06));
        if got != ((r.div >> 8) as u8, r.tima, r.tma) {
          ctx.violation(
            if with_dma { "C13:bus:registers:transfer-in-progress" } else { "C13:bus:registers" },
            &format!("history {} (bus level): bus reads DIV={:02X} TIMA={:02X} TMA={:02X}, reference {:02X} {:02X} {:02X}", fmt_hist(&h, i), got.0, got.1, got.2, (r.div >> 8) as u8, r.tima, r.tma),
          );
          break;
        }
        let f = crate::mem::memory_read_byte(mp, 0xff0f);
        if f & 4 != 0 {
          crate::mem::memory_write_byte(mp, 0xff0f, f & !4);
        }
      }
    }
    ctx.distinct_key(hash_words(&[3, hi]));
    if ctx.want_sample() && hi % 977 == 5 {
      ctx.sample(&format!("history from phase {:04X}: {} replayed per-clock, as one batch per action and with random partitions; DIV/TIMA/request compared with the per-clock reference after every action", phase, fmt_hist(&h, 12)));
    }
  }
  let _ = unit;
  let foreign = FOREIGN_BITS.load(std::sync::atomic::Ordering::Relaxed);
  if foreign != 0 {
    ctx.violation(
      "C13:request:other-interrupt-bits",
      &format!("the timer returned request bits {:02X} besides (or instead of) the timer interrupt (bit 2): an overflow requests the timer interrupt and nothing else", foreign),
    );
  }
  ctx.count("evaluations", evaluations);
  ctx.count("overflows-expected", overflows);
  ctx.count("bus-level:oam-transfers-started", bus_dma_starts);
  ctx.count("bus-level:overflows-expected", bus_overflows);
  ctx.count("tac-glitch-increments", glitches);
  ctx.count("single-batches:301-5000-clocks", long_batches);
  ctx.count("single-batches:over-5000-clocks", very_long_batches);
  ctx.count("accept-set:actions-after-div-write-with-selected-bit-high", accept_div);
}

pub fn on_crash(intent: &[u64], text: &str, status: &str, _err: &str) -> Option<(String, String)> {
  Some((format!("C13:crash:{}:{}", status.replace(' ', ""), text), format!("the timer killed the process (unit {} part {})", intent[0], intent[1])))
}
