pub mod opcmp;
pub mod c05;
pub mod c06;

use crate::{crash_is_harness_failure, Monitor};

pub fn registry() -> Vec<Monitor> {
  let _ = crash_is_harness_failure;
  vec![
    Monitor { name: "c05", run: c05::run, resumable: true, on_crash: c05::on_crash },
    Monitor { name: "c06", run: c06::run, resumable: true, on_crash: c06::on_crash },
  ]
}
