pub mod opcmp;
pub mod c05;
pub mod c06;
#[cfg(feature = "jit")]
pub mod pair;
#[cfg(feature = "jit")]
pub mod c01;

use crate::{crash_is_harness_failure, Monitor};

pub fn registry() -> Vec<Monitor> {
  let _ = crash_is_harness_failure;
  let mut v = vec![
    Monitor { name: "c05", run: c05::run, resumable: true, on_crash: c05::on_crash },
    Monitor { name: "c06", run: c06::run, resumable: true, on_crash: c06::on_crash },
  ];
  #[cfg(feature = "jit")]
  {
    v.push(Monitor { name: "c01", run: c01::run, resumable: true, on_crash: c01::on_crash });
  }
  v
}
