pub mod opcmp;
pub mod c05;
pub mod c06;
pub mod c07;
pub mod c08;
pub mod c09;
pub mod c10;
pub mod c11;
pub mod c12;
#[cfg(feature = "jit")]
pub mod pair;
#[cfg(feature = "jit")]
pub mod c01;

use crate::{crash_is_harness_failure, Monitor};

pub fn registry() -> Vec<Monitor> {
  let _ = crash_is_harness_failure;
  let mut v = vec![
    Monitor { name: "c05", run: c05::run, resumable: true, on_crash: c05::on_crash },
    Monitor { name: "c06", run: c06::run, resumable: true, on_crash: c06::on_crash },
    Monitor { name: "c07", run: c07::run, resumable: true, on_crash: c07::on_crash },
    Monitor { name: "c08", run: c08::run, resumable: true, on_crash: c08::on_crash },
    Monitor { name: "c09", run: c09::run, resumable: true, on_crash: c09::on_crash },
    Monitor { name: "c10", run: c10::run, resumable: true, on_crash: c10::on_crash },
    Monitor { name: "c11", run: c11::run, resumable: true, on_crash: c11::on_crash },
    Monitor { name: "c12", run: c12::run, resumable: true, on_crash: c12::on_crash },
  ];
  #[cfg(feature = "jit")]
  {
    v.push(Monitor { name: "c01", run: c01::run, resumable: true, on_crash: c01::on_crash });
  }
  v
}
