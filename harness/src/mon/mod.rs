pub mod opcmp;
pub mod c03;
pub mod c04;
pub mod c04r;
pub mod c05;
pub mod c06;
pub mod c07;
pub mod c08;
pub mod c09;
pub mod c10;
pub mod c11;
pub mod c12;
pub mod c13;
pub mod c14;
pub mod c15;
pub mod c16;
pub mod c17;
pub mod c18;
pub mod c19;
pub mod c20;
#[cfg(feature = "jit")]
pub mod pair;
#[cfg(feature = "jit")]
pub mod c01;

use crate::{crash_is_harness_failure, Monitor};

macro_rules! mon {
  ($name:expr, $m:ident) => {
    Monitor { name: $name, run: $m::run, resumable: true, on_crash: $m::on_crash }
  };
}

pub fn registry() -> Vec<Monitor> {
  let _ = crash_is_harness_failure;
  let mut v = vec![
    mon!("c03", c03),
    mon!("c04", c04),
    mon!("c04r", c04r),
    mon!("c05", c05),
    mon!("c06", c06),
    mon!("c07", c07),
    mon!("c08", c08),
    mon!("c09", c09),
    mon!("c10", c10),
    mon!("c11", c11),
    mon!("c12", c12),
    mon!("c13", c13),
    mon!("c14", c14),
    mon!("c15", c15),
    mon!("c16", c16),
    mon!("c17", c17),
    mon!("c18", c18),
    mon!("c19", c19),
    mon!("c20", c20),
  ];
  #[cfg(feature = "jit")]
  {
    v.push(mon!("c01", c01));
  }
  v
}
