//! C18 - serial transfers appear on standard output, in order, and nothing
//! else does. File descriptor 1 of the worker is redirected into a capture
//! file; the expected stream is derived from the hook-H1 log of writes to
//! 0xFF01 / 0xFF02. A second part runs the repository's own binaries.

use crate::emulator::Core;
use crate::gen::program::Asm;
use crate::mem::{memory_write_byte, MemoryAreas};
use crate::rt::{hash_words, Ctx, Rng};
use crate::support;
use crate::verif::{self, EV_WRITE};
use std::io::Read;

struct Capture {
  path: String,
  saved_fd: i32,
}

impl Capture {
  fn start(tag: u64) -> Capture {
    use std::io::Write;
    let _ = std::io::stdout().flush();
    let path = format!("{}/stdout-{}-{}.bin", support::work_dir(), std::process::id(), tag);
    let c = std::ffi::CString::new(path.clone()).unwrap();
    unsafe {
      let fd = libc::open(c.as_ptr(), libc::O_WRONLY | libc::O_CREAT | libc::O_TRUNC, 0o644);
      let saved = libc::dup(1);
      libc::dup2(fd, 1);
      libc::close(fd);
      Capture { path, saved_fd: saved }
    }
  }
  fn finish(self) -> Vec<u8> {
    use std::io::Write;
    let _ = std::io::stdout().flush();
    unsafe {
      libc::dup2(self.saved_fd, 1);
      libc::close(self.saved_fd);
    }
    let data = std::fs::read(&self.path).unwrap_or_default();
    let _ = std::fs::remove_file(&self.path);
    data
  }
}

/// expected output derived from the bus-write log
struct Tracker {
  sb: u8,
  expected: Vec<u8>,
  sc_with_bit7: u64,
  sc_without_bit7: u64,
  sb_writes: u64,
}

impl Tracker {
  fn feed(&mut self) {
    for e in support::masked_events().iter() {
      if e.kind == EV_WRITE {
        if e.a == 0xff01 {
          self.sb = e.b as u8;
          self.sb_writes += 1;
        } else if e.a == 0xff02 {
          if e.b & 0x80 != 0 {
            self.expected.push(self.sb);
            self.sc_with_bit7 += 1;
          } else {
            self.sc_without_bit7 += 1;
          }
        }
      }
    }
  }
}

/// a program that issues `n` writes to SB / SC with arbitrary values from code
/// placed at `org` (ROM, work RAM or high RAM), then idles for ever
fn serial_program(rng: &mut Rng, org: u16, n: usize) -> Vec<u8> {
  let mut a = Asm::new(org);
  for _ in 0..n {
    match rng.below(8) {
      5 => {
        // a 16-bit store across SB/SC: LD SP,v ; LD (0xFF01),SP ; LD SP,0xFFFE
        a.b(&[0x31, rng.u8(), rng.u8(), 0x08, 0x01, 0xff, 0x31, 0xfe, 0xff]);
      }
      6 => {
        // a push onto SC/SB: LD SP,0xFF03 ; LD BC,v ; PUSH BC ; LD SP,0xFFFE
        a.b(&[0x31, 0x03, 0xff, 0x01, rng.u8(), rng.u8(), 0xc5, 0x31, 0xfe, 0xff]);
      }
      7 => {
        // read-modify-write of SC through (HL): SET 7 / RES 7 / BIT 7 / INC
        a.ld_hl(0xff02);
        match rng.below(4) {
          0 => a.b(&[0xcb, 0xfe]),
          1 => a.b(&[0xcb, 0xbe]),
          2 => a.b(&[0xcb, 0x7e]),
          _ => a.b(&[0x34]),
        }
      }
      0 => {
        a.ld_a(rng.u8());
        a.ldh_to(0x01);
      }
      1 => {
        a.ld_a(rng.u8());
        a.ldh_to(0x02);
      }
      2 => {
        a.ld_a(rng.u8());
        a.ld_a_to(0xff01);
        a.ld_a(rng.u8() | 0x80);
        a.ld_a_to(0xff02);
      }
      3 => {
        // through (C) and (HL)
        a.b(&[0x0e, 0x01]);
        a.ld_a(rng.u8());
        a.b(&[0xe2]);
        a.ld_hl(0xff02);
        a.b(&[0x36, rng.u8()]);
      }
      _ => {
        a.ld_a(0x20 + rng.below(0x5f) as u8);
        a.ldh_to(0x01);
        a.ld_a(0x81);
        a.ldh_to(0x02);
      }
    }
  }
  // last transfer: 0x04 (end of transmission), then idle for ever
  a.ld_a(0x04);
  a.ldh_to(0x01);
  a.ld_a(0x80);
  a.ldh_to(0x02);
  a.b(&[0xf3, 0x76, 0x18, 0xfd]); // DI; HALT; JR -3
  a.bytes
}

fn base_image() -> Vec<u8> {
  let mut image = support::make_image(0x01, 0x01, 0x00);
  for i in 0x150..image.len() {
    image[i] = [0x76u8, 0x18, 0xfd, 0x00][i & 3];
  }
  image
}

/// ROM image: init (IE=0, SP), then the serial code in ROM, or a copy loop to RAM + jump
fn image_with_code(code_at: u16, code: &[u8]) -> Vec<u8> {
  let mut image = base_image();
  let mut a = Asm::new(0x0150);
  a.b(&[0xf3]);
  a.b(&[0x31, 0xfe, 0xff]);
  a.b(&[0xaf]);
  a.ldh_to(0xff);
  if code_at < 0x8000 {
    a.jp(code_at);
    let off = code_at as usize;
    image[off..off + code.len()].copy_from_slice(code);
  } else {
    // copy from ROM 0x1000 to RAM, then jump there
    let src = 0x1000usize;
    image[src..src + code.len()].copy_from_slice(code);
    a.ld_hl(src as u16);
    a.b(&[0x11, code_at as u8, (code_at >> 8) as u8]);
    a.b(&[0x01, code.len() as u8, (code.len() >> 8) as u8]); // LD BC,len
    let top = a.here();
    a.b(&[0x2a, 0x12, 0x13, 0x0b, 0x78, 0xb1]); // LD A,(HL+); LD (DE),A; INC DE; DEC BC; LD A,B; OR C
    let disp = (top as i32 - (a.here() as i32 + 2)) as i8;
    a.b(&[0x20, disp as u8]);
    a.jp(code_at);
  }
  image[0x150..0x150 + a.bytes.len()].copy_from_slice(&a.bytes);
  support::stamp_header(&mut image, 0x01, 0x01, 0x00);
  image
}

fn run_real(bin: &str, path: &str, quiet_ms: u64) -> (Vec<u8>, Option<i32>) {
  use std::os::unix::process::ExitStatusExt;
  use std::process::{Command, Stdio};
  let outpath = format!("{}.out", path);
  let outf = std::fs::File::create(&outpath).unwrap();
  let mut child = match Command::new(bin).arg(path).stdout(Stdio::from(outf)).stderr(Stdio::null()).spawn() {
    Ok(c) => c,
    Err(_) => return (Vec::new(), None),
  };
  // wait until the output has been quiet for `quiet_ms` (bounded), then stop the process
  let start = std::time::Instant::now();
  let mut last_len = 0u64;
  let mut last_change = std::time::Instant::now();
  let mut sig = None;
  loop {
    std::thread::sleep(std::time::Duration::from_millis(10));
    if let Ok(Some(s)) = child.try_wait() {
      sig = s.signal().or(Some(-(s.code().unwrap_or(0))));
      break;
    }
    let len = std::fs::metadata(&outpath).map(|m| m.len()).unwrap_or(0);
    if len != last_len {
      last_len = len;
      last_change = std::time::Instant::now();
    }
    if last_len > 0 && last_change.elapsed().as_millis() as u64 > quiet_ms {
      break;
    }
    if start.elapsed().as_secs() > 20 {
      break;
    }
  }
  let _ = child.kill();
  let _ = child.wait();
  let mut data = Vec::new();
  if let Ok(mut f) = std::fs::File::open(&outpath) {
    let _ = f.read_to_end(&mut data);
  }
  let _ = std::fs::remove_file(&outpath);
  (data, sig)
}

pub fn run(ctx: &mut Ctx) {
  let thorough = ctx.thorough();
  let seed = ctx.seed;
  let mut evaluations = 0u64;
  let mut t_tot = (0u64, 0u64, 0u64, 0u64);
  let mut real_runs = 0u64;
  let mut unit = 0u64;
  let jit = cfg!(feature = "jit");
  let engine = if jit { "jit" } else { "interp" };

  // ---- (A) in-process, stdout captured
  let nprog: u64 = if thorough { 1500 } else { 240 };
  for p in 0..nprog {
    let u = unit;
    unit += 1;
    if !ctx.mine(u) {
      continue;
    }
    ctx.intent2(u, 1);
    let mut rng = Rng::from(&[seed, 18, p]);
    let (place, org) = match p % 3 {
      0 => ("rom", 0x2000u16 + (rng.below(0x100) as u16)),
      1 => ("wram", 0xc100 + (rng.below(0x100) as u16)),
      _ => ("hram", 0xff80),
    };
    let n = if place == "hram" { 4 + rng.below(6) as usize } else { 8 + rng.below(60) as usize };
    let code = serial_program(&mut rng, org, n);
    let image = image_with_code(org, &code);
    let mut core = support::core_from_image(&image);
    let mut tr = Tracker { sb: 0, expected: Vec::new(), sc_with_bit7: 0, sc_without_bit7: 0, sb_writes: 0 };
    let cap = Capture::start(u);
    for _ in 0..6000 {
      verif::start(false);
      core.update();
      verif::stop();
      tr.feed();
      if core.run_state != crate::emulator::RunState::Run && core.registers.ip as u16 >= org && tr.sc_with_bit7 + tr.sc_without_bit7 + tr.sb_writes > 0 {
        // idle loop reached; a few more steps to catch stray output
        for _ in 0..50 {
          core.update();
        }
        break;
      }
    }
    let got = cap.finish();
    evaluations += 1;
    t_tot.0 += tr.sc_with_bit7;
    t_tot.1 += tr.sc_without_bit7;
    t_tot.2 += tr.sb_writes;
    t_tot.3 += got.len() as u64;
    if got != tr.expected {
      let what = if got.len() > tr.expected.len() && got.starts_with(&tr.expected) {
        "extra-output"
      } else if got.len() < tr.expected.len() && tr.expected.starts_with(&got) {
        "missing-output"
      } else {
        "different-bytes"
      };
      ctx.violation(
        &format!("C18:{}:{}:code-in-{}", engine, what, place),
        &format!("program #{} (code at {:04X}): stdout {:02X?}.. ({} bytes), expected from SB/SC writes {:02X?}.. ({} bytes)", p, org, &got[..got.len().min(12)], got.len(), &tr.expected[..tr.expected.len().min(12)], tr.expected.len()),
      );
    }
    ctx.distinct_key(hash_words(&[1, p]));
    if ctx.want_sample() && p % 53 == 4 {
      ctx.sample(&format!("{} build, program #{}: {} random SB/SC writes issued from {} at {:04X} (LDH, LD (a16), LD (C), LD (HL)); captured stdout {} bytes == SB at each SC write with bit 7 ({} such writes, {} without bit 7)", engine, p, n, place, org, got.len(), tr.sc_with_bit7, tr.sc_without_bit7));
    }
  }

  // ---- (A2) as many transfers as one block can hold: bank 1 of a 32 KiB image is 4095 units
  // `LD (HL),r; INC L; LD (HL),A; DEC L` (HL = 0xFF01, A = 0x81, r one of B C D E = '*', newline,
  // 'a', 'b'), run three times over: lines of a few thousand bytes, with the newline first, in
  // the middle, now and then, last, or nowhere. The host side buffers by lines; whatever it
  // does with them, every byte sent must arrive, in order.
  let mut long_line_transfers = 0u64;
  for v in 0..6u64 {
    let u = unit;
    unit += 1;
    if !ctx.mine(u) {
      continue;
    }
    ctx.intent2(u, 6);
    let mut image = support::make_image(0x00, 0x00, 0x00);
    for i in 0..image.len() {
      image[i] = [0x76u8, 0x18, 0xfd, 0x00][i & 3];
    }
    let units = (0x7ffc - 0x4000) / 4;
    let mut rng = Rng::from(&[seed, 0x18a2, v]);
    for k in 0..units {
      let newline = match v {
        0 => k == 0,
        1 => k == 1500,
        2 => k % 1100 == 7,
        3 => false,
        4 => k + 1 == units,
        _ => rng.chance(1, 900),
      };
      let r: u8 = if newline { 1 } else { [0u8, 2, 3][(k % 3) as usize] };
      let off = 0x4000 + 4 * k;
      image[off..off + 4].copy_from_slice(&[0x70 + r, 0x2c, 0x77, 0x2d]);
    }
    image[0x7ffc..0x7fff].copy_from_slice(&[0xc3, 0x00, 0x02]); // JP 0x0200
    // 0x0150: DI; XOR A; LD (C000),A; LD HL,FF01; LD BC,'*' '\n'; LD DE,'a' 'b'; LD A,81; JP 4000
    let init: [u8; 19] = [0xf3, 0xaf, 0xea, 0x00, 0xc0, 0x21, 0x01, 0xff, 0x01, 0x0a, 0x2a, 0x11, 0x62, 0x61, 0x3e, 0x81, 0xc3, 0x00, 0x40];
    image[0x0150..0x0150 + init.len()].copy_from_slice(&init);
    // 0x0200: LD A,(C000); INC A; LD (C000),A; CP 3; LD A,81; JP NZ,4000; HALT; JR -3
    let again: [u8; 17] = [0xfa, 0x00, 0xc0, 0x3c, 0xea, 0x00, 0xc0, 0xfe, 0x03, 0x3e, 0x81, 0xc2, 0x00, 0x40, 0x76, 0x18, 0xfd];
    image[0x0200..0x0200 + again.len()].copy_from_slice(&again);
    support::stamp_header(&mut image, 0x00, 0x00, 0x00);
    let mut core = support::core_from_image(&image);
    let mut tr = Tracker { sb: 0, expected: Vec::new(), sc_with_bit7: 0, sc_without_bit7: 0, sb_writes: 0 };
    let cap = Capture::start(u);
    let mut overflowed = false;
    for _ in 0..60_000 {
      verif::start(false);
      core.update();
      verif::stop();
      overflowed |= verif::overflowed();
      tr.feed();
      if core.run_state != crate::emulator::RunState::Run {
        for _ in 0..50 {
          core.update();
        }
        break;
      }
    }
    let got = cap.finish();
    if overflowed {
      ctx.inconclusive("hook ring overflowed within one step of the long-line program");
      continue;
    }
    evaluations += 1;
    long_line_transfers += tr.sc_with_bit7;
    t_tot.0 += tr.sc_with_bit7;
    t_tot.2 += tr.sb_writes;
    t_tot.3 += got.len() as u64;
    if tr.expected.len() != 3 * units {
      ctx.inconclusive(&format!("the long-line program made {} transfers, not {}", tr.expected.len(), 3 * units));
      continue;
    }
    if got != tr.expected {
      let first = got.iter().zip(tr.expected.iter()).position(|(a, b)| a != b).unwrap_or(got.len().min(tr.expected.len()));
      let what = if got.len() < tr.expected.len() { "missing-output" } else if got.len() > tr.expected.len() { "extra-output" } else { "different-bytes" };
      ctx.violation(
        &format!("C18:{}:{}:thousands-of-transfers-in-one-block", engine, what),
        &format!("long-line program variant {}: {} transfers (3 x {} in blocks as long as a bank), stdout received {} bytes; first difference at byte {}", v, tr.expected.len(), units, got.len(), first),
      );
    }
    ctx.distinct_key(hash_words(&[6, v]));
  }
  ctx.count("long-lines:transfers", long_line_transfers);

  // ---- (B) structured programs (handlers, HALT, DMA, bank switches ... with serial snippets)
  let nstruct: u64 = if thorough { 300 } else { 48 };
  for p in 0..nstruct {
    let u = unit;
    unit += 1;
    if !ctx.mine(u) {
      continue;
    }
    ctx.intent2(u, 2);
    let prog = crate::gen::program::generate(seed, 5000 + p, 0x03, 0x02);
    let mut core = support::core_from_image(&prog.image);
    let mut tr = Tracker { sb: 0, expected: Vec::new(), sc_with_bit7: 0, sc_without_bit7: 0, sb_writes: 0 };
    let cap = Capture::start(u);
    for _ in 0..8000 {
      verif::start(false);
      core.update();
      verif::stop();
      if verif::overflowed() {
        break;
      }
      tr.feed();
    }
    let got = cap.finish();
    evaluations += 1;
    t_tot.0 += tr.sc_with_bit7;
    t_tot.1 += tr.sc_without_bit7;
    t_tot.3 += got.len() as u64;
    if got != tr.expected {
      ctx.violation(&format!("C18:{}:structured-program", engine), &format!("structured program #{}: stdout has {} bytes, {} expected from SC writes with bit 7", p, got.len(), tr.expected.len()));
    }
    ctx.distinct_key(hash_words(&[2, p]));
  }

  // ---- (C) translation-cache pressure: nothing but serial bytes may reach stdout
  #[cfg(feature = "jit")]
  {
    let u = unit;
    unit += 1;
    if ctx.mine(u) {
      ctx.intent2(u, 3);
      let mut image = support::make_image(0x03, 0x06, 0x03);
      for bank in 1..128usize {
        for k in 0..256usize {
          let mut a = Asm::new(0x4000 + (k as u16) * 0x40);
          a.ld_a((bank ^ k) as u8);
          for _ in 0..(24 + (bank + k) % 24) {
            a.b(&[0x3c]);
          }
          a.b(&[0xc9]);
          let off = bank * 0x4000 + k * 0x40;
          image[off..off + a.bytes.len()].copy_from_slice(&a.bytes);
        }
      }
      support::stamp_header(&mut image, 0x03, 0x06, 0x03);
      let mut core = support::core_from_image(&image);
      let cap = Capture::start(u);
      let mp = &mut core.memory as *mut MemoryAreas;
      let mut blocks = 0u64;
      let mut min_remaining = usize::MAX;
      'outer: for bank in 1..128u8 {
        memory_write_byte(mp, 0x2100, bank & 0x1f);
        memory_write_byte(mp, 0x4100, bank >> 5);
        for k in 0..256u16 {
          let (_, _, cursor, cap_len) = core.cache.verif_layout();
          let remaining = cap_len - cursor;
          min_remaining = min_remaining.min(remaining);
          if remaining < 0x400 {
            break 'outer; // stop just before the cache would overflow (that is C04's finding)
          }
          if blocks >= 7000 {
            break 'outer; // more translated code than the 8 MiB cache holds has been produced
          }
          core.registers.ip = 0x4000 + (k as u32) * 0x40;
          core.registers.sp = 0xdff0;
          core.run_state = crate::emulator::RunState::Run;
          core.memory.work_ram[0x1ff0] = 0x00;
          core.memory.work_ram[0x1ff1] = 0x01; // return address 0x0100 (never executed here)
          core.run_code_block();
          blocks += 1;
        }
      }
      let got = cap.finish();
      evaluations += 1;
      ctx.count("cache-pressure:blocks-translated", blocks);
      ctx.count("cache-pressure:min-bytes-remaining", min_remaining as u64);
      if !got.is_empty() {
        ctx.violation(
          "C18:jit:core-prints-on-stdout:translation-cache-nearly-full",
          &format!("after {} translated blocks ({} bytes of code cache left) stdout received {:?}", blocks, min_remaining, String::from_utf8_lossy(&got[..got.len().min(80)])),
        );
      }
      ctx.sample(&format!("cache pressure: {} distinct blocks translated from 127 banks until {} bytes of the 8 MiB code cache were left; no serial write was made, so stdout must stay empty", blocks, min_remaining));
    }
  }

  // ---- (E) quiet sweep: everything a guest can poke except a serial transfer -
  // every value into every bank-register area and every I/O register of every
  // cartridge kind, cartridge RAM accesses, LCD off/on, two frames of time.
  // No SC write with bit 7 is made, so stdout must stay empty.
  {
    let kinds: [(u8, u8, u8); 8] = [(0x00, 0x00, 0x00), (0x01, 0x04, 0x00), (0x02, 0x03, 0x02), (0x03, 0x06, 0x03), (0x11, 0x04, 0x00), (0x12, 0x02, 0x02), (0x13, 0x06, 0x03), (0x13, 0x02, 0x03)];
    let mut quiet_writes = 0u64;
    for (ki, &(ct, rc, rac)) in kinds.iter().enumerate() {
      let u = unit;
      unit += 1;
      if !ctx.mine(u) {
        continue;
      }
      ctx.intent2(u, 5);
      let mut image = support::make_image(ct, rc, rac);
      support::stamp_header(&mut image, ct, rc, rac);
      let mut core = support::core_from_image(&image);
      let cap = Capture::start(u);
      let mp = &mut core.memory as *mut MemoryAreas;
      for &base in [0x0000u16, 0x1fff, 0x2000, 0x2100, 0x3fff, 0x4000, 0x5fff, 0x6000, 0x7fff].iter() {
        for v in 0..=255u8 {
          memory_write_byte(mp, base, v);
          let _ = crate::mem::memory_read_byte(mp, 0x4000);
          let _ = crate::mem::memory_read_byte(mp, 0xa000 + v as u16);
          memory_write_byte(mp, 0xbf00 + v as u16, v);
          quiet_writes += 2;
        }
      }
      for off in 0..=0xffu16 {
        for v in 0..=255u8 {
          if off == 0x02 && v & 0x80 != 0 {
            continue; // a transfer: sections (A), (B), (D)
          }
          memory_write_byte(mp, 0xff00 + off, v);
          let _ = crate::mem::memory_read_byte(mp, 0xff00 + off);
          quiet_writes += 1;
          if v % 16 == 5 {
            core.memory.run_clock_cycles(crate::timing::ClockCycles(4 * (1 + (v as usize >> 4))));
          }
        }
      }
      // LCD off, time, LCD on, two frames of time; unmapped regions
      memory_write_byte(mp, 0xff40, 0x11);
      core.memory.run_clock_cycles(crate::timing::ClockCycles(70224));
      memory_write_byte(mp, 0xff40, 0x91);
      for _ in 0..40 {
        core.memory.run_clock_cycles(crate::timing::ClockCycles(3512));
      }
      for a in (0xe000u32..0xff00).step_by(7) {
        memory_write_byte(mp, a as u16, a as u8);
        let _ = crate::mem::memory_read_byte(mp, a as u16);
        quiet_writes += 1;
      }
      let got = cap.finish();
      evaluations += 1;
      if !got.is_empty() {
        ctx.violation(
          &format!("C18:{}:core-prints-on-stdout:quiet-sweep", engine),
          &format!(
            "cartridge type {:02X} (ROM code {:02X}, RAM code {:02X}): every value written to every bank-register area and I/O register (no serial transfer): stdout received {} bytes: {:?}",
            ct, rc, rac, got.len(), String::from_utf8_lossy(&got[..got.len().min(100)])
          ),
        );
      }
      ctx.distinct_key(hash_words(&[5, ki as u64]));
    }
    ctx.count("quiet-sweep:writes-with-stdout-captured", quiet_writes);
  }

  // ---- (D) the repository's own binary, hooks off
  let bins: Vec<(String, &str)> = vec![(std::env::var("GBV_REPO_BIN").unwrap_or_default(), "repo-binary"), (std::env::var("GBV_REPO_BIN_JIT").unwrap_or_default(), "repo-binary-jit")];
  let nreal: u64 = if thorough { 64 } else { 16 };
  for p in 0..nreal {
    let u = unit;
    unit += 1;
    if !ctx.mine(u) {
      continue;
    }
    ctx.intent2(u, 4);
    let mut rng = Rng::from(&[seed, 184, p]);
    let org = match p % 3 {
      0 => 0x2000u16,
      1 => 0xc100,
      _ => 0xff80,
    };
    let n = if org == 0xff80 { 6 } else { 30 };
    let code = serial_program(&mut rng, org, n);
    let image = image_with_code(org, &code);
    // expected stream: the same image run in-process (stdout discarded), from the write log
    let mut core = support::core_from_image(&image);
    let mut tr = Tracker { sb: 0, expected: Vec::new(), sc_with_bit7: 0, sc_without_bit7: 0, sb_writes: 0 };
    let cap = Capture::start(u);
    for _ in 0..6000 {
      verif::start(false);
      core.update();
      verif::stop();
      tr.feed();
    }
    let _ = cap.finish();
    let path = support::write_temp_rom(&image);
    for (bin, name) in bins.iter() {
      if bin.is_empty() {
        continue;
      }
      let mut want: Vec<u8> = b"Loading \"GBVERIF\"\n".to_vec();
      want.extend_from_slice(&tr.expected);
      // run until the expected amount of output is there (then a short grace period
      // for anything extra), decided by content, bounded by a generous wall clock
      // the program's last transfer is the byte 0x04: the run is complete when as many
      // 0x04 bytes as expected have arrived and the output ends with one (or is long enough)
      let want_len = want.len();
      let want_eot = want.iter().filter(|b| **b == 4).count();
      let r = support::run_binary_until(bin, &path, |out| out.len() >= want_len || (out.last() == Some(&4) && out.iter().filter(|b| **b == 4).count() >= want_eot), 60);
      if r.timed_out {
        ctx.inconclusive("the repository binary did not produce the expected amount of output within 60 s (wall clock; not a verdict)");
        continue;
      }
      let out = r.stdout;
      let sig = r.signal.or(r.exit_code.map(|c| -c));
      real_runs += 1;
      evaluations += 1;
      if let Some(s) = sig {
        ctx.violation(&format!("C18:{}:exited", name), &format!("program #{}: gb-dynarec exited by itself (signal/negated code {})", p, s));
      } else if out != want {
        ctx.violation(
          &format!("C18:{}:stdout", name),
          &format!("program #{} (code at {:04X}): gb-dynarec wrote {} bytes {:?}.., expected {} bytes {:?}..", p, org, out.len(), String::from_utf8_lossy(&out[..out.len().min(40)]), want.len(), String::from_utf8_lossy(&want[..want.len().min(40)])),
        );
      }
    }
    let _ = std::fs::remove_file(&path);
    ctx.distinct_key(hash_words(&[4, p]));
  }
  if real_runs > 0 {
    ctx.sample("end to end: generated ROM file run by the repository's own gb-dynarec binaries (hooks off, with and without --features jit); stdout until quiet, then the process is stopped: exactly 'Loading \"GBVERIF\"\\n' + the serial bytes");
  }
  let _ = unit;
  ctx.count("evaluations", evaluations);
  ctx.count("sc-writes-with-bit7", t_tot.0);
  ctx.count("sc-writes-without-bit7", t_tot.1);
  ctx.count("sb-writes", t_tot.2);
  ctx.count("stdout-bytes-captured", t_tot.3);
  ctx.count("runs-of-the-real-binaries", real_runs);
}

pub fn on_crash(intent: &[u64], text: &str, status: &str, _err: &str) -> Option<(String, String)> {
  Some((format!("C18:crash:{}:{}", status.replace(' ', ""), text), format!("the emulator killed the process (unit {} part {})", intent[0], intent[1])))
}
