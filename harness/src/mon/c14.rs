//! C14 - LCD line/mode schedule: 70224-clock frame, modes 2/3/0 of 80/188/188
//! clocks on lines 0-143, mode 1 on lines 144-153, VBlank once per frame at
//! LY=144, STAT requests on mode entry and LY=LYC, independent of batching.

use crate::devices::video::VideoState;
use crate::rt::{hash_words, Ctx, Rng};
use crate::timing::ClockCycles;

pub const FRAME: u64 = 70224;
pub const START: u64 = 144 * 456; // VideoState::new(): first clock of vertical blank

#[derive(Clone, Copy, Debug, PartialEq, Eq)]
pub struct Pos {
  pub line: u8,
  pub mode: u8,
}

pub fn pos_at(t: u64) -> Pos {
  let p = (START + t) % FRAME;
  let line = (p / 456) as u8;
  let x = p % 456;
  let mode = if line >= 144 {
    1
  } else if x < 80 {
    2
  } else if x < 268 {
    3
  } else {
    0
  };
  Pos { line, mode }
}

/// requests raised in the half-open interval (t0, t1] of elapsed time:
/// bit 0 VBlank, bit 1 STAT. `stat` = enable bits 3..6, `lyc` = compare value.
pub fn requests(t0: u64, t1: u64, stat: u8, lyc: u8) -> (u8, u64) {
  let mut flags = 0u8;
  let mut vblanks = 0u64;
  // events happen on 4-clock boundaries; walk line by line, not clock by clock
  let mut t = t0 - (t0 % 4);
  // candidate event times: line starts, x=80 (no request), x=268
  let first_line_start = {
    let p = (START + t) % FRAME;
    t - (p % 456)
  };
  let mut ls = first_line_start;
  while ls <= t1 {
    let p = (START + ls) % FRAME;
    let line = (p / 456) as u8;
    // line start
    if ls > t0 && ls <= t1 {
      if line == 144 {
        flags |= 1;
        vblanks += 1;
        if stat & 0x10 != 0 {
          flags |= 2;
        }
      }
      if line < 144 && stat & 0x20 != 0 {
        flags |= 2;
      }
      if stat & 0x40 != 0 && line == lyc {
        flags |= 2;
      }
    }
    // mode 0 entry
    let h = ls + 268;
    if line < 144 && h > t0 && h <= t1 && stat & 0x08 != 0 {
      flags |= 2;
    }
    ls += 456;
  }
  let _ = &mut t;
  (flags, vblanks)
}

pub fn run(ctx: &mut Ctx) {
  let thorough = ctx.thorough();
  let seed = ctx.seed;
  // video RAM and OAM full of random bytes, objects on most lines: how long the controller
  // stays in a mode must not depend on what it has to draw (the statement gives fixed
  // lengths; an all-zero OAM would hide an implementation that stretches mode 3 per object)
  let (vram, oam) = {
    let mut r = Rng::from(&[seed, 0x14b]);
    let v: Vec<u8> = (0..0x2000).map(|_| r.u8()).collect();
    let mut o: Vec<u8> = (0..0xa0).map(|_| r.u8()).collect();
    for k in 0..40 {
      o[k * 4] = 16 + ((k * 37) % 150) as u8; // Y: spread over the visible lines, ties included
      if k % 3 == 0 {
        o[k * 4] = 16 + ((k / 3) % 4) as u8 * 8; // ten and more objects on the first lines
      }
    }
    (v.into_boxed_slice(), o.into_boxed_slice())
  };
  let mut evaluations = 0u64;
  let mut frames = 0u64;
  let mut lines_seen = [false; 154];
  let mut modes_seen = [false; 4];
  let mut vblank_requests = 0u64;
  let mut stat_requests = 0u64;
  let mut reg_changes = 0u64;
  let mut lcdc_changes = 0u64;
  let mut unit = 0u64;
  let lycs: Vec<u8> = {
    let mut v: Vec<u8> = (0..=160u16).map(|x| x as u8).collect();
    v.extend_from_slice(&[200, 255]);
    v
  };
  for mask in 0..16u8 {
    for &lyc in lycs.iter() {
      let u = unit;
      unit += 1;
      if !ctx.mine(u) {
        continue;
      }
      if !thorough && !(lyc <= 3 || lyc >= 142 || lyc % 9 == mask % 9) {
        continue;
      }
      ctx.intent2(u, 0);
      let stat = mask << 3;
      let nparts = if thorough { 24 } else { 6 };
      let mut rng = Rng::from(&[seed, 14, mask as u64, lyc as u64]);
      for part in 0..nparts {
        let mut v = VideoState::new();
        // LCD and background on; the other bits (objects, 8x16, window, maps, addressing) vary
        v.set_lcd_control(if part == 0 { 0x91 } else { 0x81 | (rng.u8() & 0x7e) });
        let f0 = v.set_lcd_status(stat).as_u8();
        let f1 = v.set_ly_compare(lyc).as_u8();
        let _ = (f0, f1); // requests made by the writes themselves are C10's subject
        let mut t: u64 = 0;
        let total = 3 * FRAME + 456 * 7;
        let mut vb_this_run = 0u64;
        // every third partition also rewrites the enables / LYC between batches: what
        // counts for an event is the register contents at the moment of the event
        let (mut stat, mut lyc) = (stat, lyc);
        while t < total {
          if part % 3 == 2 && rng.chance(1, 12) {
            match rng.below(5) {
              0 | 1 => {
                stat = (rng.below(16) as u8) << 3;
                let _ = v.set_lcd_status(stat);
              }
              2 | 3 => {
                lyc = *rng.pick(&lycs);
                let _ = v.set_ly_compare(lyc);
              }
              _ => {
                // LCDC rewritten, display switched off and on included: the statement knows
                // no exception ("always reflect this schedule"), and the code has none
                v.set_lcd_control(rng.u8());
                if rng.chance(1, 2) {
                  v.set_lcd_control(0x91 | (rng.u8() & 0x6e)); // off and on again within the same instant
                }
                lcdc_changes += 1;
              }
            }
            reg_changes += 1;
          }
          // partition 0 is the canonical 4-clock stepping; others are random multiples of 4
          let n: u64 = if part == 0 {
            4
          } else {
            match rng.below(6) {
              0 => 4,
              1 => 4 * (1 + rng.below(30)),
              2 => 456,
              3 => 4 * (1 + rng.below(600)),
              4 => 4 * (1 + rng.below(20000)),
              _ => 4 * (1 + rng.below(120)),
            }
          };
          let got = v.run_clock_cycles(ClockCycles(n as usize), &vram, &oam).as_u8();
          let (want, vb) = requests(t, t + n, stat, lyc);
          t += n;
          evaluations += 1;
          vb_this_run += vb;
          let p = pos_at(t);
          lines_seen[p.line as usize] = true;
          modes_seen[p.mode as usize] = true;
          let st = v.get_lcd_status();
          let want_low = p.mode | if p.line == lyc { 4 } else { 0 };
          if got & 1 != 0 {
            vblank_requests += 1;
          }
          if got & 2 != 0 {
            stat_requests += 1;
          }
          let mut bad: Option<(&str, String)> = None;
          if v.get_ly() != p.line {
            bad = Some(("ly", format!("LY={} expected {}", v.get_ly(), p.line)));
          } else if v.get_current_mode() != p.mode {
            bad = Some(("mode", format!("mode={} expected {} (line {})", v.get_current_mode(), p.mode, p.line)));
          } else if st & 7 != want_low {
            bad = Some(("stat-low-bits", format!("STAT&7={} expected {}", st & 7, want_low)));
          } else if (got & 1) != (want & 1) {
            bad = Some((if got & 1 != 0 { "vblank-request:spurious" } else { "vblank-request:missing" }, format!("requests {:02X} expected {:02X}", got, want)));
          } else if (got & 2) != (want & 2) {
            bad = Some((if got & 2 != 0 { "stat-request:spurious" } else { "stat-request:missing" }, format!("requests {:02X} expected {:02X}", got, want)));
          } else if got & !3 != 0 {
            bad = Some(("other-request", format!("requests {:02X}", got)));
          }
          if let Some((what, detail)) = bad {
            let q = (START + t) % FRAME;
            ctx.violation(
              &format!("C14:{}:line={}", what, if (q / 456) >= 143 && (q / 456) <= 145 { "143-145".to_string() } else if q / 456 == 0 || q / 456 == 153 { "153-0".to_string() } else { "other".to_string() }),
              &format!(
                "STAT enables {:02X} LYC={} partition #{}: after {} clocks (last batch {}; schedule position line {} dot {}): {}",
                stat, lyc, part, t, n, q / 456, q % 456, detail
              ),
            );
            break;
          }
        }
        frames += t / FRAME;
        let _ = vb_this_run;
        ctx.distinct_key(hash_words(&[u, part as u64]));
      }
      if ctx.want_sample() && u % 41 == 7 {
        ctx.sample(&format!("STAT enables {:02X}, LYC={}: 3 frames + 7 lines from power-on, canonical 4-clock stepping and {} random partitions (multiples of 4 up to 80000); after every batch LY, mode, STAT bits 0-2 and the returned requests vs the closed-form schedule", stat, lyc, nparts - 1));
      }
    }
  }
  // ---- the same schedule seen through the I/O block: what the LCD controller requests must
  // arrive in IF (bits 0 and 1), whatever LCDC says - display switched off included
  let mut io_batches = 0u64;
  let mut io_requests = 0u64;
  for mask in 0..16u8 {
    let u = unit;
    unit += 1;
    if !ctx.mine(u) {
      continue;
    }
    ctx.intent2(u, 1);
    let mut rng = Rng::from(&[seed, 0x14a, mask as u64]);
    for run in 0..(if thorough { 24 } else { 6 }) {
      let mut io = crate::devices::io::IO::new();
      let stat = mask << 3;
      let lyc = *rng.pick(&lycs);
      // LCDC: on, off from the start, or toggled along the way
      let lcdc0: u8 = [0x91u8, 0x11, 0x00, 0x91, 0x80, 0x13][run % 6];
      io.set_byte(0xff40, lcdc0);
      io.set_byte(0xff41, stat);
      io.set_byte(0xff45, lyc);
      io.interrupt_flag.clear(0x1f);
      let mut t: u64 = 0;
      while t < 2 * FRAME + 456 * 5 {
        if run >= 3 && rng.chance(1, 20) {
          io.set_byte(0xff40, rng.u8());
          io.interrupt_flag.clear(0x1f);
        }
        let n: u64 = match rng.below(4) {
          0 => 4,
          1 => 4 * (1 + rng.below(30)),
          2 => 4 * (1 + rng.below(600)),
          _ => 4 * (1 + rng.below(5000)),
        };
        io.run_clock_cycles(ClockCycles(n as usize), &vram, &oam);
        let got = io.interrupt_flag.as_u8() & 3;
        io.interrupt_flag.clear(0x1f);
        let (want, _) = requests(t, t + n, stat, lyc);
        t += n;
        io_batches += 1;
        evaluations += 1;
        if got != 0 {
          io_requests += 1;
        }
        if got != want & 3 {
          let q = (START + t) % FRAME;
          ctx.violation(
            &format!("C14:io:if-bits:{}", if got & !want != 0 { "spurious" } else { "missing" }),
            &format!(
              "through IO: LCDC first written {:02X}, STAT enables {:02X}, LYC={}: after {} clocks (last batch {}; schedule position line {} dot {}) IF received {:02X} from the LCD controller, the schedule gives {:02X}",
              lcdc0, stat, lyc, t, n, q / 456, q % 456, got, want & 3
            ),
          );
          break;
        }
      }
    }
    ctx.distinct_key(hash_words(&[0x14a, mask as u64]));
  }
  let _ = unit;
  ctx.count("io-level-batches", io_batches);
  ctx.count("io-level-batches-with-a-request", io_requests);
  ctx.count("evaluations", evaluations);
  ctx.count("frames-run", frames);
  ctx.count("lines-observed(this worker)", lines_seen.iter().filter(|x| **x).count() as u64);
  ctx.count("modes-observed(this worker)", modes_seen.iter().filter(|x| **x).count() as u64);
  ctx.count("vblank-requests-observed", vblank_requests);
  ctx.count("stat-requests-observed", stat_requests);
  ctx.count("enable-or-lyc-rewrites-between-batches", reg_changes);
  ctx.count("lcdc-rewrites-between-batches(display-off/on-included)", lcdc_changes);
}

pub fn on_crash(intent: &[u64], text: &str, status: &str, _err: &str) -> Option<(String, String)> {
  Some((format!("C14:crash:{}:{}", status.replace(' ', ""), text), format!("the LCD controller killed the process (unit {})", intent[0])))
}
