//! Single-instruction comparison engine: repository interpreter vs the
//! reference SM83 model, on a real MemoryAreas. Used by C05 (data) and C06
//! (control flow, length, timing).

use crate::cpu::Registers;
use crate::interpreter;
use crate::mem::{memory_read_byte, MemoryAreas};
use crate::refmodel::cpu as refcpu;
use crate::support;

pub struct FixedBus {
  pub mem: *const MemoryAreas,
  pub writes: [(u16, u8); 4],
  pub nwrites: usize,
}

impl refcpu::Bus for FixedBus {
  #[inline]
  fn read(&mut self, addr: u16) -> u8 {
    memory_read_byte(self.mem, addr)
  }
  #[inline]
  fn write(&mut self, addr: u16, value: u8) {
    if self.nwrites < 4 {
      self.writes[self.nwrites] = (addr, value);
    }
    self.nwrites += 1;
  }
}

#[derive(Clone, Debug)]
pub struct Mismatch {
  pub field: &'static str,
  /// "range": low 16 bits agree but the stored value is outside 0..65535;
  /// "value": the architectural value differs
  pub kind: &'static str,
  pub got: u64,
  pub want: u64,
}

pub struct Outcome {
  pub step: refcpu::Step,
  pub panicked: bool,
  pub panic_msg: String,
  pub mismatches: Vec<Mismatch>,
  pub status: u8,
  pub block_end: bool,
  pub impl_writes: usize,
}

pub fn place(mem: &mut MemoryAreas, addr: u16, byte: u8) -> bool {
  match addr {
    0x0000..=0x3fff => mem.rom[addr as usize] = byte,
    0x4000..=0x7fff => {
      let bank = mem.cart_state.get_rom_bank();
      let idx = bank * 0x4000 + (addr as usize & 0x3fff);
      if idx >= mem.rom.len() {
        return false;
      }
      mem.rom[idx] = byte;
    }
    0xc000..=0xcfff => mem.work_ram[addr as usize & 0xfff] = byte,
    0xd000..=0xdfff => mem.work_ram[0x1000 + (addr as usize & 0xfff)] = byte,
    0xff80..=0xfffe => mem.high_ram[addr as usize & 0x7f] = byte,
    // operand bytes of an instruction whose first byte is the last of ROM / of high RAM
    0x8000..=0x9fff => mem.video_ram[addr as usize & 0x1fff] = byte,
    0xffff => mem.io.interrupt_mask = byte & 0x1f,
    _ => return false,
  }
  true
}

pub fn place_bytes(mem: &mut MemoryAreas, addr: u16, bytes: &[u8]) -> bool {
  for (i, b) in bytes.iter().enumerate() {
    if !place(mem, addr.wrapping_add(i as u16), *b) {
      return false;
    }
  }
  true
}

fn cmp32(out: &mut Vec<Mismatch>, field: &'static str, got: u32, want: u16) {
  if got == want as u32 {
    return;
  }
  if got as u16 == want {
    out.push(Mismatch { field, kind: "range", got: got as u64, want: want as u64 });
  } else {
    out.push(Mismatch { field, kind: "value", got: got as u64, want: want as u64 });
  }
}

/// Run the instruction at regs.ip through both the reference model and the
/// repository interpreter and report every field that differs. The
/// interpreter's effects on `mem` stay applied.
pub fn exec_compare(mem: &mut MemoryAreas, regs: &mut Registers) -> Outcome {
  let mem_ptr = mem as *mut MemoryAreas;
  let mut cpu = support::cpu_from_regs(regs);
  let cycles_before = regs.cycles;
  let mut bus = FixedBus { mem: mem_ptr, writes: [(0, 0); 4], nwrites: 0 };
  let step = refcpu::step(&mut cpu, &mut bus);
  let before = support::regs_tuple(regs);

  crate::verif::start(false);
  unsafe {
    crate::rt::EXPECT_PANIC = true;
  }
  let result = {
    let r = &mut *regs;
    std::panic::catch_unwind(std::panic::AssertUnwindSafe(move || interpreter::run_next_op(r, mem_ptr)))
  };
  unsafe {
    crate::rt::EXPECT_PANIC = false;
  }
  crate::verif::stop();
  let events = crate::verif::events();
  let mut mismatches = Vec::new();
  let mut out = Outcome {
    step,
    panicked: false,
    panic_msg: String::new(),
    mismatches: Vec::new(),
    status: 0,
    block_end: false,
    impl_writes: 0,
  };
  let after = support::regs_tuple(regs);
  match result {
    Err(e) => {
      out.panicked = true;
      out.panic_msg = if let Some(s) = e.downcast_ref::<String>() {
        s.clone()
      } else if let Some(s) = e.downcast_ref::<&str>() {
        s.to_string()
      } else {
        "?".to_string()
      };
      if step.effect == refcpu::Effect::Undefined {
        // refusing to execute is the accepted outcome; nothing may have changed
        if after != before {
          mismatches.push(Mismatch { field: "undefined-changed-registers", kind: "value", got: 0, want: 0 });
        }
        if events.iter().any(|e| e.kind == crate::verif::EV_WRITE) {
          mismatches.push(Mismatch { field: "undefined-wrote-memory", kind: "value", got: 0, want: 0 });
        }
      } else {
        mismatches.push(Mismatch { field: "panic", kind: "value", got: 0, want: 0 });
      }
      out.mismatches = mismatches;
      return out;
    }
    Ok(None) => {
      mismatches.push(Mismatch { field: "no-instruction", kind: "value", got: 0, want: 0 });
      out.mismatches = mismatches;
      return out;
    }
    Ok(Some((status, block_end))) => {
      out.status = status;
      out.block_end = block_end;
    }
  }
  if step.effect == refcpu::Effect::Undefined {
    // executed "something": must at least be a no-op that changes nothing
    // architectural; anything else means it ran as another instruction
    let same = after[0..5] == before[0..5];
    let wrote = events.iter().any(|e| e.kind == crate::verif::EV_WRITE);
    if !same || wrote || after[5] != before[5] {
      mismatches.push(Mismatch { field: "undefined-executed", kind: "value", got: after[5] as u64, want: before[5] as u64 });
    }
    out.mismatches = mismatches;
    return out;
  }
  cmp32(&mut mismatches, "af", after[0], cpu.af());
  cmp32(&mut mismatches, "bc", after[1], cpu.bc());
  cmp32(&mut mismatches, "de", after[2], cpu.de());
  cmp32(&mut mismatches, "hl", after[3], cpu.hl());
  cmp32(&mut mismatches, "sp", after[4], cpu.sp);
  cmp32(&mut mismatches, "pc", after[5], cpu.pc);
  if after[0] & 0x0f != 0 {
    mismatches.push(Mismatch { field: "f-low-nibble", kind: "value", got: after[0] as u64, want: 0 });
  }
  let charged = after[6].wrapping_sub(cycles_before);
  if charged != step.cycles as u32 {
    mismatches.push(Mismatch {
      field: if step.info.conditional {
        if step.taken {
          "cycles-taken"
        } else {
          "cycles-not-taken"
        }
      } else {
        "cycles"
      },
      kind: "value",
      got: charged as u64,
      want: step.cycles as u64,
    });
  }
  if out.block_end != step.info.block_end {
    mismatches.push(Mismatch { field: "block-end", kind: "value", got: out.block_end as u64, want: step.info.block_end as u64 });
  }
  let want_status = match step.effect {
    refcpu::Effect::Normal => crate::cpu::STATUS_NORMAL,
    refcpu::Effect::Stop => crate::cpu::STATUS_STOP,
    refcpu::Effect::Halt => crate::cpu::STATUS_HALT,
    refcpu::Effect::DisableInterrupts => crate::cpu::STATUS_INTERRUPT_DISABLE,
    refcpu::Effect::EnableInterruptsDelayed => crate::cpu::STATUS_INTERRUPT_ENABLE,
    refcpu::Effect::EnableInterruptsNow => crate::cpu::STATUS_INTERRUPT_ENABLE_IMMEDIATE,
    refcpu::Effect::Undefined => 0xff,
  };
  if out.status != want_status {
    mismatches.push(Mismatch { field: "status", kind: "value", got: out.status as u64, want: want_status as u64 });
  }
  // bus writes: same addresses, values, order
  let mut n = 0usize;
  let mut bad = false;
  for e in events.iter() {
    if e.kind != crate::verif::EV_WRITE {
      continue;
    }
    if n < bus.nwrites.min(4) {
      let (a, v) = bus.writes[n];
      if e.a as u16 != a || e.b as u8 != v {
        bad = true;
      }
    }
    n += 1;
  }
  out.impl_writes = n;
  if n != bus.nwrites || bad {
    let mut got = 0u64;
    let mut k = 0;
    for e in events.iter() {
      if e.kind == crate::verif::EV_WRITE && k < 2 {
        got = (got << 24) | ((e.a as u64) << 8) | e.b as u64;
        k += 1;
      }
    }
    let mut want = 0u64;
    for i in 0..bus.nwrites.min(2) {
      want = (want << 24) | ((bus.writes[i].0 as u64) << 8) | bus.writes[i].1 as u64;
    }
    mismatches.push(Mismatch { field: "bus-writes", kind: if n != bus.nwrites { "count" } else { "value" }, got, want });
  }
  out.mismatches = mismatches;
  out
}

/// The same comparison through the interpreter's block runner: `regs.ip` points at an
/// instruction which is followed (unless it ends the block itself) by a HALT. Returns None
/// when the case is outside the domain (undefined opcode, or the instruction overwrote the
/// HALT), otherwise the mismatches between `interpreter::run_code_block` and the model
/// stepped over the same one or two instructions.
pub fn exec_block_compare(mem: &mut MemoryAreas, regs: &mut Registers) -> Option<Vec<Mismatch>> {
  let mem_ptr = mem as *mut MemoryAreas;
  let mut cpu = support::cpu_from_regs(regs);
  let cycles_before = regs.cycles;
  let start = regs.ip;
  let mut bus = FixedBus { mem: mem_ptr, writes: [(0, 0); 4], nwrites: 0 };
  let step = refcpu::step(&mut cpu, &mut bus);
  if step.effect == refcpu::Effect::Undefined {
    return None;
  }
  unsafe {
    crate::rt::EXPECT_PANIC = true;
  }
  let result = {
    let r = &mut *regs;
    std::panic::catch_unwind(std::panic::AssertUnwindSafe(move || interpreter::run_code_block(r, mem_ptr)))
  };
  unsafe {
    crate::rt::EXPECT_PANIC = false;
  }
  let mut want_cycles = step.cycles as u32;
  // the block goes on behind an instruction that does not end it - unless it began in ROM
  // bank 0 and has reached the switchable bank
  let goes_on = !step.info.block_end && !(start < 0x4000 && cpu.pc >= 0x4000);
  if goes_on {
    let step2 = refcpu::step(&mut cpu, &mut bus);
    if !step2.info.block_end || step2.effect == refcpu::Effect::Undefined {
      return None;
    }
    want_cycles += step2.cycles as u32;
  }
  let mut mismatches = Vec::new();
  if result.is_err() {
    mismatches.push(Mismatch { field: "panic", kind: "value", got: 0, want: 0 });
    return Some(mismatches);
  }
  let after = support::regs_tuple(regs);
  cmp32(&mut mismatches, "af", after[0], cpu.af());
  cmp32(&mut mismatches, "bc", after[1], cpu.bc());
  cmp32(&mut mismatches, "de", after[2], cpu.de());
  cmp32(&mut mismatches, "hl", after[3], cpu.hl());
  cmp32(&mut mismatches, "sp", after[4], cpu.sp);
  cmp32(&mut mismatches, "pc", after[5], cpu.pc);
  let charged = after[6].wrapping_sub(cycles_before);
  if charged != want_cycles {
    mismatches.push(Mismatch { field: "cycles", kind: "value", got: charged as u64, want: want_cycles as u64 });
  }
  Some(mismatches)
}

pub fn quiet_panics() {}
