//! C04, end to end on the repository's own binaries in BOTH build profiles: generated ROMs
//! whose blocks begin with one memory access each (every addressing form, every region, the
//! value then printed over the serial port) are run by `gb-dynarec` built with and without
//! `--features jit`, unoptimised and `--release`, hooks off. All four must print what the
//! in-process interpreter prints. (The harness builds carry hooks inside the bus helpers,
//! which changes how an optimising compiler treats their arguments: what translated code
//! hands to the helpers of the shipped binary can only be observed on the shipped binary.)

use crate::gen::program::Asm;
use crate::rt::{hash_words, Ctx, Rng};
use crate::support;
use crate::verif::{self, EV_WRITE};

fn out_a(a: &mut Asm) {
  a.ldh_to(0x01);
  a.ld_a(0x81);
  a.ldh_to(0x02);
}

/// one test: the instructions of the block (it begins right after a JP, so it is a block of
/// its own; register loads first, then the access under test), ending with A = the value to print
fn access_block(rng: &mut Rng, a: &mut Asm, desc: &mut String) {
  // where to read: bank 0 data, the window, video RAM, work RAM, high RAM
  let read_addr = |rng: &mut Rng| -> u16 {
    match rng.below(6) {
      0 | 1 => 0x3000 + rng.below(0x1000) as u16,
      2 => 0x4000 + rng.below(0x4000) as u16,
      3 => 0x8000 + rng.below(0x100) as u16,
      4 => 0xc000 + rng.below(0x100) as u16,
      _ => 0xffa0 + rng.below(0x40) as u16,
    }
  };
  let write_addr = |rng: &mut Rng| -> u16 {
    match rng.below(3) {
      0 => 0x8100 + rng.below(0x100) as u16,
      1 => 0xc200 + rng.below(0x1000) as u16,
      _ => 0xffa0 + rng.below(0x40) as u16,
    }
  };
  let form = rng.below(16);
  match form {
    0 => {
      let t = read_addr(rng);
      a.b(&[0xfa, t as u8, (t >> 8) as u8]); // LD A,(nn)
      desc.push_str(&format!(" A<-({:04X})", t));
    }
    1 | 2 | 3 => {
      let t = read_addr(rng);
      a.ld_hl(t);
      a.b(&[[0x7eu8, 0x2a, 0x3a][(form - 1) as usize]]); // LD A,(HL) / (HL+) / (HL-)
      desc.push_str(&format!(" A<-(HL={:04X})", t));
    }
    4 => {
      let t = read_addr(rng);
      a.b(&[0x01, t as u8, (t >> 8) as u8, 0x0a]); // LD BC,nn; LD A,(BC)
      desc.push_str(&format!(" A<-(BC={:04X})", t));
    }
    5 => {
      let t = read_addr(rng);
      a.b(&[0x11, t as u8, (t >> 8) as u8, 0x1a]); // LD DE,nn; LD A,(DE)
      desc.push_str(&format!(" A<-(DE={:04X})", t));
    }
    6 => {
      let t = read_addr(rng);
      a.ld_hl(t);
      a.b(&[0x46, 0x78]); // LD B,(HL); LD A,B
      desc.push_str(&format!(" B<-(HL={:04X})", t));
    }
    7 => {
      // LDH A,(n) / LD A,(C) from high RAM (filled by the prologue)
      let n = 0xa0 + rng.below(0x40) as u8;
      if rng.chance(1, 2) {
        a.b(&[0xf0, n]);
      } else {
        a.b(&[0x0e, n, 0xf2]);
      }
      desc.push_str(&format!(" A<-(FF{:02X})", n));
    }
    8 => {
      // POP as the first access: SP points into ROM data or work RAM
      let t = read_addr(rng) & 0xfffe;
      a.b(&[0x31, t as u8, (t >> 8) as u8, 0xc1, 0x78, 0xa9]); // LD SP,nn; POP BC; LD A,B; XOR C
      a.b(&[0x31, 0xfe, 0xff]); // LD SP,0xFFFE (kept out of the way of the tests)
      desc.push_str(&format!(" POP@{:04X}", t));
    }
    9 => {
      let t = write_addr(rng);
      let v = rng.u8();
      a.ld_a(v);
      a.b(&[0xea, t as u8, (t >> 8) as u8]); // LD (nn),A
      a.b(&[0xaf]); // XOR A
      a.ld_hl(t);
      a.b(&[0x7e]);
      desc.push_str(&format!(" ({:04X})<-A", t));
    }
    10 | 11 | 12 => {
      let t = write_addr(rng);
      let v = rng.u8();
      a.ld_hl(t);
      a.ld_a(v);
      a.b(&[[0x77u8, 0x22, 0x32][(form - 10) as usize]]); // LD (HL),A / (HL+) / (HL-)
      a.b(&[0xaf, 0xfa, t as u8, (t >> 8) as u8]); // XOR A; LD A,(nn)
      desc.push_str(&format!(" (HL={:04X})<-A", t));
    }
    13 => {
      let t = write_addr(rng);
      let v = rng.u8();
      a.ld_hl(t);
      a.b(&[0x36, v, 0x34, 0xfa, t as u8, (t >> 8) as u8]); // LD (HL),n; INC (HL); LD A,(nn)
      desc.push_str(&format!(" (HL={:04X})<-n,INC", t));
    }
    14 => {
      // LD (nn),SP and PUSH as first accesses
      let t = write_addr(rng) & 0xfffe;
      let sp = 0xc000 + 2 * rng.below(0x800) as u16 + 0x1000;
      a.b(&[0x31, sp as u8, (sp >> 8) as u8, 0x08, t as u8, (t >> 8) as u8]); // LD SP,nn; LD (nn),SP
      a.b(&[0xfa, t as u8, (t >> 8) as u8, 0x47, 0xfa, (t + 1) as u8, ((t + 1) >> 8) as u8, 0xa8]); // A = lo ^ hi
      a.b(&[0x31, 0xfe, 0xff]);
      desc.push_str(&format!(" ({:04X})<-SP", t));
    }
    _ => {
      let sp = 0xc000 + 2 * rng.below(0x800) as u16 + 0x1002;
      let v = rng.below(0x10000) as u16;
      a.b(&[0x31, sp as u8, (sp >> 8) as u8, 0x01, v as u8, (v >> 8) as u8, 0xc5]); // LD SP,nn; LD BC,v; PUSH BC
      let lo = sp.wrapping_sub(2);
      a.b(&[0xfa, lo as u8, (lo >> 8) as u8, 0x47, 0xfa, (lo + 1) as u8, ((lo + 1) >> 8) as u8, 0x90]); // A = hi - lo
      a.b(&[0x31, 0xfe, 0xff]);
      desc.push_str(&format!(" PUSH@{:04X}", sp));
    }
  }
}

pub fn forms_image(seed: u64, p: u64) -> (Vec<u8>, String) {
  let mut rng = Rng::from(&[seed, 0xc04f, p]);
  let (ct, rc) = *rng.pick(&[(0x01u8, 0x01u8), (0x01, 0x02), (0x11, 0x02), (0x13, 0x03)]);
  let banks = support::rom_banks_for_code(rc);
  let mut image = support::make_image(ct, rc, 0x00);
  // every byte of every bank differs from the byte at the same offset of the other banks
  for bank in 0..banks {
    for i in 0..0x4000usize {
      if bank == 0 && i < 0x150 {
        continue;
      }
      image[bank * 0x4000 + i] = (bank as u8).wrapping_mul(0x35) ^ (i as u8).wrapping_mul(7) ^ ((i >> 8) as u8).wrapping_mul(3) ^ 0x5a;
    }
  }
  for v in [0x40usize, 0x48, 0x50, 0x58, 0x60].iter() {
    image[*v] = 0xd9;
  }
  let mut desc = format!("type {:02X}, {} banks:", ct, banks);
  let mut a = Asm::new(0x0150);
  a.b(&[0xf3, 0x31, 0xfe, 0xff]); // DI; LD SP,0xFFFE
  // recognisable contents in video RAM, work RAM and high RAM
  for (base, n) in [(0x8000u16, 0u16), (0xc000, 0), (0xffa0, 0x40)].iter() {
    a.ld_hl(*base);
    a.b(&[0x06, if *n == 0 { 0 } else { *n as u8 }]); // LD B,count (0 = 256)
    let top = a.here();
    a.b(&[0x7d, 0xee, (*base >> 8) as u8 ^ 0x3c, 0x22, 0x05]); // LD A,L; XOR k; LD (HL+),A; DEC B
    let d = (top as i32 - (a.here() as i32 + 2)) as i8;
    a.b(&[0x20, d as u8]);
  }
  let ntests = 40 + rng.below(40);
  for t in 0..ntests {
    if t % 9 == 4 {
      // map another bank (a block of its own)
      let k = 1 + rng.below((banks - 1) as u64) as u8;
      let next = a.here() + 3;
      a.jp(next);
      a.ld_a(k);
      a.ld_a_to(0x2100);
      desc.push_str(&format!(" bank{:02X}", k));
    }
    // a JP to the very next address: the test begins a block of its own
    let next = a.here() + 3;
    a.jp(next);
    access_block(&mut rng, &mut a, &mut desc);
    out_a(&mut a);
    assert!(a.here() < 0x2f00);
  }
  a.ld_a(0x04);
  out_a(&mut a);
  a.b(&[0x76, 0x18, 0xfd]);
  image[0x0150..0x0150 + a.bytes.len()].copy_from_slice(&a.bytes);
  support::stamp_header(&mut image, ct, rc, 0x00);
  (image, desc)
}

pub fn run(ctx: &mut Ctx) {
  let thorough = ctx.thorough();
  let seed = ctx.seed;
  let bins: Vec<(String, &str)> = vec![
    (std::env::var("GBV_REPO_BIN").unwrap_or_default(), "debug"),
    (std::env::var("GBV_REPO_BIN_JIT").unwrap_or_default(), "debug-jit"),
    (std::env::var("GBV_REPO_BIN_REL").unwrap_or_default(), "release"),
    (std::env::var("GBV_REPO_BIN_JIT_REL").unwrap_or_default(), "release-jit"),
  ];
  let nprog: u64 = if thorough { 96 } else { 16 };
  let mut runs = 0u64;
  let mut tests = 0u64;
  let mut bytes = 0u64;
  for p in 0..nprog {
    if !ctx.mine(p) {
      continue;
    }
    ctx.intent2(p, 0);
    let (image, desc) = forms_image(seed, p);
    // expected stream: the same image run in-process (this harness build has no recompiler)
    let mut core = support::core_from_image(&image);
    let mut sb = 0u8;
    let mut expected: Vec<u8> = Vec::new();
    for _ in 0..60_000 {
      verif::start(false);
      core.update();
      verif::stop();
      for e in support::masked_events().iter() {
        if e.kind == EV_WRITE {
          if e.a == 0xff01 {
            sb = e.b as u8;
          } else if e.a == 0xff02 && e.b & 0x80 != 0 {
            expected.push(sb);
          }
        }
      }
      if expected.last() == Some(&4) && core.run_state != crate::emulator::RunState::Run {
        break;
      }
    }
    if expected.last() != Some(&4) {
      ctx.inconclusive(&format!("program #{} did not reach its end marker in-process", p));
      continue;
    }
    tests += expected.len() as u64 - 1;
    let path = support::write_temp_rom(&image);
    let mut want: Vec<u8> = b"Loading \"GBVERIF\"\n".to_vec();
    want.extend_from_slice(&expected);
    for (bin, name) in bins.iter() {
      if bin.is_empty() {
        continue;
      }
      let want_len = want.len();
      let r = support::run_binary_until(bin, &path, |out| out.len() >= want_len, 60);
      if r.timed_out && r.stdout.len() + 1 >= want_len.min(19) && r.stdout.len() < want_len {
        // it stopped printing before the end: a wrong jump or a wrong stack is a result, not a time-out
        ctx.violation(
          &format!("C04:real-binary:{}:serial-output-stops", name),
          &format!("program #{} [{}]: gb-dynarec ({}) printed {} of {} bytes and then nothing more", p, desc, name, r.stdout.len(), want_len),
        );
        runs += 1;
        continue;
      }
      if r.timed_out {
        ctx.inconclusive("the repository binary did not produce any output within 60 s (wall clock; not a verdict)");
        continue;
      }
      runs += 1;
      bytes += r.stdout.len() as u64;
      if let Some(s) = r.signal.or(r.exit_code.map(|c| -c)) {
        ctx.violation(&format!("C04:real-binary:{}:exited", name), &format!("program #{} [{}]: gb-dynarec ({}) exited by itself (signal/negated code {})", p, desc, name, s));
      } else if r.stdout != want {
        let k = (0..want.len().min(r.stdout.len())).find(|&i| want[i] != r.stdout[i]).unwrap_or(want.len().min(r.stdout.len()));
        ctx.violation(
          &format!("C04:real-binary:{}:serial-output-differs", name),
          &format!(
            "program #{} [{}]: gb-dynarec ({}) printed {:02X} as byte #{} of its serial output, the interpreter prints {:02X} (test #{} of the program)",
            p,
            desc,
            name,
            r.stdout.get(k).copied().unwrap_or(0),
            k.saturating_sub(18),
            want.get(k).copied().unwrap_or(0),
            k.saturating_sub(18)
          ),
        );
      }
    }
    let _ = std::fs::remove_file(&path);
    ctx.distinct_key(hash_words(&[p, seed]));
    if ctx.want_sample() && p % 5 == 0 {
      ctx.sample(&format!("ROM #{} ({}): every test is a block of its own that begins with one access and prints the value; run by gb-dynarec debug / debug+jit / release / release+jit", p, &desc[..desc.len().min(200)]));
    }
  }
  ctx.count("evaluations", runs);
  ctx.count("runs-of-the-real-binaries", runs);
  ctx.count("access-tests-in-the-programs", tests);
  ctx.count("stdout-bytes-compared", bytes);
}

pub fn on_crash(intent: &[u64], text: &str, status: &str, _err: &str) -> Option<(String, String)> {
  Some((format!("C04:crash:real-binary-harness:{}:{}", status.replace(' ', ""), text), format!("the in-process reference run killed the process (program {})", intent[0])))
}
