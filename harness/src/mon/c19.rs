//! C19 - ROM files are validated by header checksum, sized from the header
//! tables, and rejected at load time (message / controlled termination) when
//! too short, corrupt, smaller than declared or of an unsupported type - never
//! by a fault or a later out-of-bounds access.

use crate::cart::Header;
use crate::rt::{hash_words, Ctx, Rng};
use crate::support;
use std::io::{Read, Write};

fn ref_rom_bytes(code: u8) -> Option<usize> {
  match code {
    0x00..=0x08 => Some((32 * 1024) << code),
    0x52 => Some(72 * 16 * 1024),
    0x53 => Some(80 * 16 * 1024),
    0x54 => Some(96 * 16 * 1024),
    _ => None, // undocumented: unspecified
  }
}

fn ref_ram_bytes(code: u8) -> Option<usize> {
  match code {
    0 => Some(0),
    1 => Some(2 * 1024),
    2 => Some(8 * 1024),
    3 => Some(32 * 1024),
    4 => Some(128 * 1024),
    5 => Some(64 * 1024),
    _ => None,
  }
}

fn supported_type(t: u8) -> bool {
  matches!(t, 0x00 | 0x01 | 0x02 | 0x03 | 0x11 | 0x12 | 0x13)
}

/// run `f` in a forked child; returns Ok(exit code) or Err(signal)
fn in_child<F: FnOnce() -> i32>(f: F) -> Result<i32, i32> {
  unsafe {
    let pid = libc::fork();
    if pid == 0 {
      // quiet: expected rejections panic with a message
      let devnull = std::ffi::CString::new("/dev/null").unwrap();
      let fd = libc::open(devnull.as_ptr(), libc::O_WRONLY);
      if fd >= 0 {
        libc::dup2(fd, 2);
      }
      crate::rt::EXPECT_PANIC = true;
      let code = match std::panic::catch_unwind(std::panic::AssertUnwindSafe(f)) {
        Ok(c) => c,
        Err(_) => 101,
      };
      libc::_exit(code);
    }
    let mut status = 0;
    libc::waitpid(pid, &mut status, 0);
    if libc::WIFSIGNALED(status) {
      Err(libc::WTERMSIG(status))
    } else {
      Ok(libc::WEXITSTATUS(status))
    }
  }
}

/// a file whose header declares (type, rom code, ram code) and whose code at
/// the entry point reads the last byte of the declared ROM, then idles
fn build_file(path: &str, cart_type: u8, rom_code: u8, ram_code: u8, file_len: usize, corrupt_checksum: Option<u8>, filler: u8) {
  let declared = support::rom_banks_for_code(rom_code) * 0x4000;
  let mut head = vec![filler; 0x200.min(file_len.max(0x200))];
  // entry: select the last bank (for controllers that bank), read 0x7FFF / last byte, idle
  let banks = declared / 0x4000;
  let code: Vec<u8> = vec![
    0x3e, ((banks - 1) & 0xff) as u8, // LD A,last bank
    0xea, 0x00, 0x21, // LD (0x2100),A
    0xfa, 0xff, 0x7f, // LD A,(0x7FFF)
    0xfa, 0xff, 0x3f, // LD A,(0x3FFF)
    0x3e, b'K', 0xe0, 0x01, 0x3e, 0x81, 0xe0, 0x02, // serial: 'K' = the guest is running
    0xf3, 0x76, 0x18, 0xfd, // DI; HALT; JR -3
  ];
  head[0x150..0x150 + code.len()].copy_from_slice(&code);
  support::stamp_header(&mut head, cart_type, rom_code, ram_code);
  if let Some(c) = corrupt_checksum {
    head[0x14d] = c;
  }
  let mut f = std::fs::File::create(path).expect("create");
  let n = file_len.min(head.len());
  f.write_all(&head[..n]).unwrap();
  if file_len > head.len() {
    f.set_len(file_len as u64).unwrap();
  }
}

#[derive(Debug, PartialEq, Eq, Clone, Copy)]
enum Outcome {
  AcceptedAndReadable,
  RejectedCleanly,
  ControlledPanic,
  Fault(i32),
  Other(i32),
}

fn load_in_child(path: &str, declared: usize) -> Outcome {
  let p = path.to_string();
  let r = in_child(move || match support::core_from_file(&p) {
    Err(_) => 10,
    Ok(core) => {
      // touch the first, a middle and the last declared ROM byte
      let rom = &core.memory.rom;
      // "for accepted files the ROM size is that given by the header tables": also when
      // the file holds more than it declares
      if rom.len() != declared {
        return 12;
      }
      let n = rom.len().min(declared.max(1));
      let x = std::hint::black_box(rom[0]) as u32 + std::hint::black_box(rom[n / 2]) as u32 + std::hint::black_box(rom[n - 1]) as u32;
      std::hint::black_box(x);
      0
    }
  });
  match r {
    Ok(0) => Outcome::AcceptedAndReadable,
    Ok(10) => Outcome::RejectedCleanly,
    Ok(101) => Outcome::ControlledPanic,
    Ok(c) => Outcome::Other(c),
    Err(s) => Outcome::Fault(s),
  }
}

/// run the repository's own binary on the file; returns (stdout, died by signal?, exit code if exited)
fn run_real_binary(bin: &str, path: &str, wait_ms: u64) -> (String, Option<i32>, Option<i32>) {
  use std::os::unix::process::ExitStatusExt;
  use std::process::{Command, Stdio};
  let mut child = match Command::new(bin).arg(path).stdout(Stdio::piped()).stderr(Stdio::null()).spawn() {
    Ok(c) => c,
    Err(_) => return (String::new(), None, None),
  };
  let start = std::time::Instant::now();
  let mut status = None;
  while start.elapsed().as_millis() < wait_ms as u128 {
    if let Ok(Some(s)) = child.try_wait() {
      status = Some(s);
      break;
    }
    std::thread::sleep(std::time::Duration::from_millis(5));
  }
  if status.is_none() {
    let _ = child.kill();
    let _ = child.wait();
  }
  let mut out = Vec::new();
  if let Some(mut so) = child.stdout.take() {
    let mut buf = [0u8; 4096];
    // the pipe is closed now; read what was written
    while let Ok(n) = so.read(&mut buf) {
      if n == 0 || out.len() > 1 << 16 {
        break;
      }
      out.extend_from_slice(&buf[..n]);
    }
  }
  let text = String::from_utf8_lossy(&out).to_string();
  match status {
    Some(s) => (text, s.signal(), s.code()),
    None => (text, None, None),
  }
}

pub fn run(ctx: &mut Ctx) {
  let thorough = ctx.thorough();
  let seed = ctx.seed;
  let work = support::work_dir();
  let path = format!("{}/c19-{}.gb", work, std::process::id());
  let mut evaluations = 0u64;
  let mut headers = 0u64;
  let mut files = 0u64;
  let mut real_runs = 0u64;
  let mut accepted = 0u64;
  let mut rejected = 0u64;
  let mut unit = 0u64;

  // ---- (a) header decoding: checksum, size tables - exhaustive over the four bytes, random elsewhere
  for which in 0..4u64 {
    let u = unit;
    unit += 1;
    if !ctx.mine(u) {
      continue;
    }
    ctx.intent2(u, 1);
    let mut rng = Rng::from(&[seed, 19, which]);
    for v in 0..=255u16 {
      for rep in 0..(if thorough { 16 } else { 4 }) {
        let mut file = vec![0u8; 0x150];
        for b in file[0x100..0x150].iter_mut() {
          *b = rng.u8();
        }
        // sensible defaults, then the byte under exhaustive variation
        file[0x147] = *rng.pick(&[0x00u8, 0x01, 0x03, 0x11, 0x13]);
        file[0x148] = rng.below(9) as u8;
        file[0x149] = rng.below(6) as u8;
        match which {
          0 => {}
          1 => file[0x147] = v as u8,
          2 => file[0x148] = v as u8,
          _ => file[0x149] = v as u8,
        }
        let good = support::header_checksum(&file);
        file[0x14d] = if which == 0 { v as u8 } else if rep % 2 == 0 { good } else { good.wrapping_add(1 + rng.below(255) as u8) };
        std::fs::write(&path, &file).unwrap();
        {
          // sparse, and at least as large as any size a header can declare (8 MiB)
          let f = std::fs::OpenOptions::new().write(true).open(&path).unwrap();
          f.set_len(8 << 20).unwrap();
        }
        let mut f = std::fs::File::open(&path).unwrap();
        evaluations += 1;
        headers += 1;
        unsafe {
          crate::rt::EXPECT_PANIC = true;
        }
        let r = std::panic::catch_unwind(std::panic::AssertUnwindSafe(|| crate::system::read_header(&mut f)));
        unsafe {
          crate::rt::EXPECT_PANIC = false;
        }
        let header: Header = match r {
          Err(_) => {
            ctx.violation("C19:read_header:panic", &format!("read_header panicked on a 0x150-byte file, header bytes 147..14D = {:02X?}", &file[0x147..0x14e]));
            continue;
          }
          Ok(Err(e)) => {
            ctx.violation("C19:read_header:refused-a-complete-file", &format!("read_header refused an 8 MiB file with a complete header: {}", e));
            continue;
          }
          Ok(Ok(h)) => h,
        };
        let want_valid = file[0x14d] == good;
        if header.valid_checksum() != want_valid {
          ctx.violation(
            if want_valid { "C19:checksum:valid-header-refused" } else { "C19:checksum:corrupt-header-accepted" },
            &format!("bytes 134..14C give checksum {:02X}, byte 14D is {:02X}: valid_checksum() = {}", good, file[0x14d], header.valid_checksum()),
          );
        }
        if let Some(sz) = ref_rom_bytes(file[0x148]) {
          if header.get_rom_size_bytes() != sz {
            ctx.violation(&format!("C19:rom-size:code={:02X}", file[0x148]), &format!("ROM size code {:02X}: {} bytes, header table says {}", file[0x148], header.get_rom_size_bytes(), sz));
          }
        }
        if let Some(sz) = ref_ram_bytes(file[0x149]) {
          if header.get_ram_size_bytes() != sz {
            ctx.violation(&format!("C19:ram-size:code={:02X}", file[0x149]), &format!("RAM size code {:02X}: {} bytes, header table says {}", file[0x149], header.get_ram_size_bytes(), sz));
          }
        }
      }
      ctx.distinct_key(hash_words(&[1, which, v as u64]));
    }
  }
  ctx.sample("0x150-byte files with random header bytes; exhaustive over the checksum byte 14D (exactly one value valid), the type byte 147 and the size bytes 148/149: valid_checksum(), get_rom_size_bytes(), get_ram_size_bytes() vs the header tables");

  // ---- (b) accept / reject decision and absence of later faults, in an isolated child per file
  let bin = std::env::var("GBV_REPO_BIN").unwrap_or_default();
  let types: Vec<u8> = if thorough { (0..=255u16).map(|x| x as u8).collect() } else { vec![0x00, 0x01, 0x02, 0x03, 0x05, 0x06, 0x08, 0x0f, 0x11, 0x12, 0x13, 0x19, 0x1b, 0x20, 0xfc, 0xff] };
  // (files are sparse: an 8 MiB image costs nothing to create)
  let rom_codes: Vec<u8> = if thorough { vec![0x00, 0x01, 0x02, 0x03, 0x04, 0x05, 0x06, 0x07, 0x08, 0x52, 0x53, 0x54] } else { vec![0x00, 0x01, 0x03, 0x07, 0x08, 0x52] };
  for &ct in types.iter() {
    for &rc in rom_codes.iter() {
      let u = unit;
      unit += 1;
      if !ctx.mine(u) {
        continue;
      }
      ctx.intent(&[u, 2, ct as u64, rc as u64]);
      let mut rng = Rng::from(&[seed, 192, ct as u64, rc as u64]);
      let declared = support::rom_banks_for_code(rc) * 0x4000;
      let lengths: Vec<(usize, &str)> = vec![
        (0, "empty"),
        (0xff, "shorter-than-header"),
        (0x100, "shorter-than-header"),
        (0x14f, "shorter-than-header"),
        (0x150, "smaller-than-declared"),
        (declared - 4096, "smaller-than-declared"),
        (declared - 4097, "smaller-than-declared"),
        (declared - 1, "smaller-than-declared"),
        (declared, "exact"),
        (declared + 1, "larger"),
        (declared + 4096, "larger"),
        (declared + 0x4000, "larger"),
        (declared + 0x8000 + 77, "larger"),
        (declared * 2, "larger"),
      ];
      for &(len, class) in lengths.iter() {
        for corrupt in [false, true].iter() {
          if *corrupt && !(class == "exact" || class == "smaller-than-declared") {
            continue;
          }
          let ram_code = rng.below(6) as u8;
          build_file(&path, ct, rc, ram_code, len, None, 0x00);
          if *corrupt {
            // flip the checksum byte
            let mut f = std::fs::OpenOptions::new().read(true).write(true).open(&path).unwrap();
            use std::io::{Seek, SeekFrom};
            let mut b = [0u8; 1];
            if f.seek(SeekFrom::Start(0x14d)).is_ok() && f.read_exact(&mut b).is_ok() {
              f.seek(SeekFrom::Start(0x14d)).unwrap();
              f.write_all(&[b[0] ^ 0x5a]).unwrap();
            }
          }
          evaluations += 1;
          files += 1;
          let out = load_in_child(&path, declared);
          let must_reject = *corrupt || class == "empty" || class == "shorter-than-header" || class == "smaller-than-declared" || !supported_type(ct);
          let describe = format!("type {:02X}, ROM code {:02X} (declares {} bytes), file of {} bytes ({}){}", ct, rc, declared, len, class, if *corrupt { ", corrupt checksum" } else { "" });
          match out {
            Outcome::Fault(sig) => {
              ctx.violation(&format!("C19:fault:{}:signal{}", if *corrupt { "corrupt" } else { class }, sig), &format!("{}: the loader or the first access to the declared ROM died with signal {}", describe, sig));
            }
            Outcome::AcceptedAndReadable => {
              accepted += 1;
              if must_reject {
                let why = if *corrupt {
                  "corrupt-checksum"
                } else if !supported_type(ct) {
                  "unsupported-type"
                } else {
                  class
                };
                ctx.violation(&format!("C19:accepted:{}", why), &format!("{}: accepted", describe));
              }
            }
            Outcome::RejectedCleanly | Outcome::ControlledPanic => {
              rejected += 1;
              if !must_reject {
                ctx.violation("C19:rejected-a-good-file", &format!("{}: rejected ({:?})", describe, out));
              }
            }
            Outcome::Other(12) => {
              ctx.violation(&format!("C19:rom-size:mapped-size-differs-from-declared:{}", class), &format!("{}: the file is accepted but the ROM the emulator maps does not have the declared size", describe));
            }
            Outcome::Other(c) => {
              ctx.violation("C19:unexpected-exit", &format!("{}: child exit code {}", describe, c));
            }
          }
          // ---- (c) the repository's own binary on a sample of the same files
          if !bin.is_empty() && (rng.chance(1, if thorough { 6 } else { 3 }) || class == "smaller-than-declared" && supported_type(ct) && !*corrupt) {
            // decided by what the binary prints, never by how long it takes: the
            // guest prints 'K' once it runs; a rejection prints the fallback banner;
            // an unsupported type terminates the process
            let r = support::run_binary_until(&bin, &path, |out| {
              let t = String::from_utf8_lossy(out);
              t.contains("No ROM, loading fallback") || t.contains("\"\nK") || t.ends_with("K")
            }, 60);
            if r.timed_out {
              ctx.inconclusive("the repository binary neither finished loading nor exited within 60 s (wall clock; not a verdict)");
              continue;
            }
            let text = String::from_utf8_lossy(&r.stdout).to_string();
            let (sig, code) = (r.signal, r.exit_code);
            real_runs += 1;
            evaluations += 1;
            // "loaded" = the guest program ran
            let loaded = text.contains("Loading \"") && text.contains("\nK") && !text.contains("No ROM, loading fallback");
            if let Some(s) = sig {
              ctx.violation(&format!("C19:binary:fault:{}:signal{}", if *corrupt { "corrupt" } else { class }, s), &format!("{}: gb-dynarec died with signal {} (stdout: {:?})", describe, s, &text[..text.len().min(120)]));
            } else if must_reject && loaded {
              // (a "Loading" line followed by the process terminating by itself with an
              // error status is a controlled termination at load time: `loaded` is false then)
              ctx.violation(&format!("C19:binary:accepted:{}", if *corrupt { "corrupt-checksum" } else if !supported_type(ct) { "unsupported-type" } else { class }), &format!("{}: gb-dynarec printed {:?}", describe, &text[..text.len().min(120)]));
            } else if !must_reject && !loaded {
              ctx.violation("C19:binary:rejected-a-good-file", &format!("{}: gb-dynarec printed {:?} (exit {:?})", describe, &text[..text.len().min(120)], code));
            }
          }
        }
      }
      ctx.distinct_key(hash_words(&[2, ct as u64, rc as u64]));
      if ctx.want_sample() && u % 13 == 5 {
        ctx.sample(&format!("type {:02X}, ROM code {:02X}: files of 0, 0xFF, 0x100, 0x14F, 0x150, declared-4097, declared-4096, declared-1, declared, declared+1, declared+4096 bytes, with good and corrupt checksum; each loaded in an isolated child that then touches the last declared ROM byte; a sample also through the real gb-dynarec binary", ct, rc));
      }
    }
  }
  let _ = std::fs::remove_file(&path);
  ctx.intent_clear();
  ctx.count("evaluations", evaluations);
  ctx.count("headers-decoded", headers);
  ctx.count("files-loaded-in-isolation", files);
  ctx.count("files-accepted", accepted);
  ctx.count("files-rejected", rejected);
  ctx.count("runs-of-the-real-binary", real_runs);
}

pub fn on_crash(intent: &[u64], text: &str, status: &str, _err: &str) -> Option<(String, String)> {
  Some((format!("C19:crash:{}:{}", status.replace(' ', ""), text), format!("loader code killed the monitor itself (unit {} part {})", intent[0], intent[1])))
}
