//! C11 - no guest-controlled bus access can crash the emulator. The oracle is
//! the survival of the worker process: every access is announced in the shared
//! intent record first; a death is attributed to exactly that access, the
//! rest of its (configuration, bank state, region, kind) class is skipped and
//! the worker is restarted after it.

use crate::emulator::Core;
use crate::mem::{jit_push_word, jit_read_byte, jit_read_word, jit_write_byte, jit_write_word, memory_push_word, memory_read_byte, memory_read_word, memory_write_byte, memory_write_word, MemoryAreas};
use crate::rt::{hash_words, Ctx, Rng};
use crate::support;
use std::collections::HashSet;
use std::io::{Seek, SeekFrom, Write};

pub const TYPES: [u8; 7] = [0x00, 0x01, 0x02, 0x03, 0x11, 0x12, 0x13];
pub const ROM_CODES: [u8; 12] = [0x00, 0x01, 0x02, 0x03, 0x04, 0x05, 0x06, 0x07, 0x08, 0x52, 0x53, 0x54];
pub const RAM_CODES: [u8; 6] = [0x00, 0x01, 0x02, 0x03, 0x04, 0x05];

/// a sparse ROM file of the declared size with a valid header and each bank's index in its first two bytes
pub fn sparse_rom(cart_type: u8, rom_code: u8, ram_code: u8) -> String {
  let banks = support::rom_banks_for_code(rom_code);
  let mut head = vec![0u8; 0x150];
  support::stamp_header(&mut head, cart_type, rom_code, ram_code);
  let path = format!("{}/cfg-{}-{:02x}{:02x}{:02x}.gb", support::work_dir(), std::process::id(), cart_type, rom_code, ram_code);
  let mut f = std::fs::File::create(&path).expect("create");
  f.set_len((banks * 0x4000) as u64).expect("set_len");
  f.write_all(&head).unwrap();
  for b in 1..banks {
    f.seek(SeekFrom::Start((b * 0x4000) as u64)).unwrap();
    f.write_all(&[b as u8, (b >> 8) as u8]).unwrap();
  }
  path
}

fn region_id(a: u16) -> u64 {
  match a {
    0x0000..=0x3fff => 0,
    0x4000..=0x7fff => 1,
    0x8000..=0x9fff => 2,
    0xa000..=0xbfff => 3,
    0xc000..=0xdfff => 4,
    0xe000..=0xfdff => 5,
    0xfe00..=0xfeff => 6,
    0xff00..=0xff7f => 7,
    _ => 8,
  }
}

const REGION_NAMES: [&str; 9] = ["rom0", "romN", "vram", "cartram", "wram", "echo", "oam", "io", "hram-ie"];
// kinds 4-7: the stack form of the word write, and the entry points translated code uses for
// all of its bus accesses (whole argument registers, whose upper bits hold whatever the block
// left there - here: set); 8 and 9 are the device storm and the loader
const KIND_NAMES: [&str; 8] = ["read", "write", "word-read", "word-write", "push-word", "translated-code-entry:read", "translated-code-entry:write", "translated-code-entry:push-word"];
const DIRTY: u64 = 0xdead_beef_7fff_0000;

struct Runner<'a> {
  ctx: &'a mut Ctx,
  skip: HashSet<(u64, u64, u64, u64)>, // (config key, state key, region, kind)
  accesses: u64,
  skipped: u64,
}

impl<'a> Runner<'a> {
  #[inline]
  fn access(&mut self, core: &mut Core, unit: u64, sub: u64, cfg: u64, state: u64, addr: u16, kind: u64, value: u8) {
    let reg = region_id(addr);
    // crash classes are per (configuration, register area / phase, region, kind)
    if !self.skip.is_empty() && self.skip.contains(&(cfg, state >> 8, reg, kind)) {
      self.skipped += 1;
      return;
    }
    self.ctx.intent(&[unit, sub, cfg, state, addr as u64, kind, reg]);
    let mp = &mut core.memory as *mut MemoryAreas;
    match kind {
      0 => {
        std::hint::black_box(memory_read_byte(mp, addr));
      }
      1 => memory_write_byte(mp, addr, value),
      2 => {
        std::hint::black_box(memory_read_word(mp, addr));
      }
      3 => memory_write_word(mp, addr, ((value as u16) << 8) | (!value) as u16),
      4 => memory_push_word(mp, addr, ((value as u16) << 8) | (!value) as u16),
      5 => {
        std::hint::black_box(jit_read_byte(mp, DIRTY | addr as u64));
        std::hint::black_box(jit_read_word(mp, DIRTY | addr as u64));
      }
      6 => {
        jit_write_byte(mp, DIRTY | addr as u64, DIRTY | value as u64);
        jit_write_word(mp, DIRTY | addr as u64, DIRTY | ((value as u64) << 8) | (!value) as u64);
      }
      _ => jit_push_word(mp, DIRTY | addr as u64, DIRTY | ((value as u64) << 8) | (!value) as u64),
    }
    self.accesses += 1;
  }
}

pub fn probe_addresses() -> Vec<u16> {
  let mut v: Vec<u16> = Vec::new();
  for &b in [0x0000u32, 0x2000, 0x4000, 0x6000, 0x8000, 0xa000, 0xa800, 0xc000, 0xd000, 0xe000, 0xfe00, 0xfea0, 0xff00, 0xff80, 0x10000].iter() {
    for d in -2i32..=2 {
      v.push((b as i32 + d).rem_euclid(0x10000) as u16);
    }
  }
  let mut a = 0u32;
  while a < 0x10000 {
    v.push(a as u16);
    v.push((a + 0xff) as u16);
    a += 0x200;
  }
  v.sort();
  v.dedup();
  v
}

pub fn run(ctx: &mut Ctx) {
  let thorough = ctx.thorough();
  let seed = ctx.seed;
  let mut skip = HashSet::new();
  for s in ctx.skips.iter() {
    skip.insert((s[2], s[3] >> 8, s[6], s[5]));
  }
  let mut r = Runner { ctx, skip, accesses: 0, skipped: 0 };
  let probes = probe_addresses();
  let mut unit = 0u64;
  let mut configs = 0u64;
  let mut states = 0u64;
  for &ct in TYPES.iter() {
    for (ri, &rc) in ROM_CODES.iter().enumerate() {
      for &rac in RAM_CODES.iter() {
        let u = unit;
        unit += 1;
        // quick tier: three ROM sizes per type (smallest, 16 banks, a non-power-of-two), all RAM sizes
        let _ = ri;
        if !r.ctx.mine_sub(u) {
          continue;
        }
        // after a crash the same bank state is entered again: the crashing
        // class is now in the skip set, so progress is guaranteed
        let first_sub = match r.ctx.resume {
          Some((c, s)) if c == u => s,
          _ => 0,
        };
        let cfg = ((ct as u64) << 16) | ((rc as u64) << 8) | rac as u64;
        r.ctx.intent(&[u, 0, cfg, 0, 0, 9, 9]);
        let path = sparse_rom(ct, rc, rac);
        let mut core = match support::core_from_file(&path) {
          Ok(c) => c,
          Err(e) => {
            r.ctx.violation("C11:loader-rejected-supported-configuration", &format!("type {:02X} rom {:02X} ram {:02X}: {}", ct, rc, rac, e));
            let _ = std::fs::remove_file(&path);
            continue;
          }
        };
        let _ = std::fs::remove_file(&path);
        configs += 1;
        let mut rng = Rng::from(&[seed, 11, cfg]);
        let mut sub = 0u64;
        // (a) every value into each of the four register areas, then the probe set with every kind
        for area in 0..4u16 {
          let values: Vec<u8> = if thorough { (0..=255u16).map(|x| x as u8).collect() } else { (0..=255u16).step_by(5).map(|x| x as u8).chain([0xff, 0x1f, 0x20, 0x7f, 0x80, 0x0a, 0x03, 0x04].iter().cloned()).collect() };
          for &val in values.iter() {
            sub += 1;
            if sub < first_sub {
              continue;
            }
            let state = ((area as u64) << 8) | val as u64 | 0x10000;
            // the state-setting write itself is an access
            r.access(&mut core, u, sub, cfg, state, area * 0x2000 + (rng.below(0x2000) as u16), 1, val);
            states += 1;
            for &a in probes.iter() {
              r.access(&mut core, u, sub, cfg, state, a, 0, 0);
              r.access(&mut core, u, sub, cfg, state, a, 2, 0);
              r.access(&mut core, u, sub, cfg, state, a, 5, 0);
              if a >= 0x8000 {
                r.access(&mut core, u, sub, cfg, state, a, 1, val ^ 0x5a);
                r.access(&mut core, u, sub, cfg, state, a, 3, val);
                r.access(&mut core, u, sub, cfg, state, a, 4, val ^ 0x33);
                r.access(&mut core, u, sub, cfg, state, a, 6, val ^ 0xc3);
                r.access(&mut core, u, sub, cfg, state, a, 7, val);
              }
            }
          }
        }
        // (b) random register histories, each followed by a full sweep of the address space
        let sweeps = if thorough { 6 } else { 2 };
        for s in 0..sweeps {
          sub += 1;
          if sub < first_sub {
            continue;
          }
          let state = 0x20000 | s as u64;
          for _ in 0..(s * 3) {
            let a = rng.below(0x8000) as u16;
            let v = rng.edgy_u8();
            r.access(&mut core, u, sub, cfg, state, a, 1, v);
          }
          states += 1;
          let step = if thorough { 1 } else { 3 };
          let mut a: u32 = (s as u32) % step;
          while a < 0x10000 {
            let addr = a as u16;
            r.access(&mut core, u, sub, cfg, state, addr, 0, 0);
            r.access(&mut core, u, sub, cfg, state, addr, 2, 0);
            r.access(&mut core, u, sub, cfg, state, addr, 5, 0);
            if addr >= 0x8000 {
              r.access(&mut core, u, sub, cfg, state, addr, 1, a as u8);
              r.access(&mut core, u, sub, cfg, state, addr, 3, a as u8);
              r.access(&mut core, u, sub, cfg, state, addr, 4, a as u8);
              r.access(&mut core, u, sub, cfg, state, addr, 6, a as u8);
              r.access(&mut core, u, sub, cfg, state, addr, 7, a as u8);
            }
            a += step;
          }
        }
        // (c) bank-register writes with every kind, including word writes across area boundaries
        sub += 1;
        if sub >= first_sub {
          let state = 0x30000;
          for _ in 0..2000 {
            let a = rng.below(0x8000) as u16;
            let v = rng.u8();
            let k = *rng.pick(&[1u64, 3, 1, 3, 4, 6, 7]);
            r.access(&mut core, u, sub, cfg, state, a, k, v);
            let p = *rng.pick(&probes);
            r.access(&mut core, u, sub, cfg, state, p, rng.below(8), v);
          }
          states += 1;
        }
        r.ctx.distinct_key(hash_words(&[cfg]));
        if r.ctx.want_sample() && u % 29 == 7 {
          r.ctx.sample(&format!(
            "cartridge type {:02X}, ROM code {:02X} ({} banks), RAM code {:02X}: loaded through the real loader; every value into each bank-register area x {} probe addresses x read/write/word-read/word-write/push-word and the five entry points of translated code (argument registers with their upper bits set); random register histories followed by sweeps of all 65536 addresses",
            ct,
            rc,
            support::rom_banks_for_code(rc),
            rac,
            probes.len()
          ));
        }
      }
    }
  }
  // ---- device storm: guest-controlled values reach the devices too, and the devices act
  // on them later, while time passes (the LCD fetching tiles and objects with whatever
  // LCDC/SCX/SCY/WX/WY/LYC hold at that moment, the DMA engine reading whatever page
  // was written, the timer). Random register writes interleaved with emulated time, on
  // memories full of random bytes; a panic is attributed to the unit.
  let mut failing_stdout_transfers = 0u64;
  let mut storm_writes = 0u64;
  let mut storm_clocks = 0u64;
  let storm_units: u64 = if thorough { 64 } else { 16 };
  for k in 0..storm_units {
    let u = unit;
    unit += 1;
    if !r.ctx.mine_sub(u) {
      continue;
    }
    if let Some((c, _)) = r.ctx.resume {
      if c == u {
        continue; // this unit ended the previous incarnation of the worker: reported, not repeated
      }
    }
    let (ct, rc, rac) = [(0x03u8, 0x02u8, 0x03u8), (0x00, 0x00, 0x00), (0x13, 0x02, 0x02), (0x01, 0x01, 0x00)][(k % 4) as usize];
    let cfg = ((ct as u64) << 16) | ((rc as u64) << 8) | rac as u64;
    r.ctx.intent(&[u, 0, cfg, 0, 0, 8, 7]);
    let mut image = support::make_image(ct, rc, rac);
    let mut rng = Rng::from(&[seed, 0x5702, k]);
    for i in 0x150..image.len() {
      image[i] = rng.u8();
    }
    support::stamp_header(&mut image, ct, rc, rac);
    let mut core = support::core_from_image(&image);
    let mp = &mut core.memory as *mut MemoryAreas;
    for a in 0x8000u32..0xa000 {
      memory_write_byte(mp, a as u16, rng.u8());
    }
    for a in 0xfe00u32..0xfea0 {
      memory_write_byte(mp, a as u16, rng.u8());
    }
    const LCD_REGS: [u8; 11] = [0x40, 0x41, 0x42, 0x43, 0x45, 0x47, 0x48, 0x49, 0x4a, 0x4b, 0x40];
    for it in 0..30_000u64 {
      let (a, v): (u16, u8) = match rng.below(10) {
        0..=4 => (0xff00 | *rng.pick(&LCD_REGS) as u16, if rng.chance(1, 3) { rng.edgy_u8() } else { rng.u8() }),
        5 => (0xff00 | *rng.pick(&[0x04u8, 0x05, 0x06, 0x07, 0x0f, 0x00, 0x01, 0x02]) as u16, rng.u8()),
        6 => (0xff46, rng.u8()),
        7 => (0xfe00 + rng.below(0xa0) as u16, rng.u8()),
        8 => (0x8000 + rng.below(0x2000) as u16, rng.u8()),
        _ => (0xff00 + rng.below(0x100) as u16, rng.u8()),
      };
      if a == 0xff02 && v & 0x80 != 0 {
        continue; // would print on the worker's stdout
      }
      r.ctx.intent(&[u, it, cfg, v as u64, a as u64, 8, 7]);
      memory_write_byte(mp, a, v);
      let n = 4 * (1 + rng.below(*rng.clone().pick(&[3u64, 30, 120, 600])) as usize);
      core.memory.run_clock_cycles(crate::timing::ClockCycles(n));
      let _ = memory_read_byte(mp, a);
      storm_writes += 1;
      storm_clocks += n as u64;
      r.accesses += 1;
    }
    r.ctx.distinct_key(hash_words(&[0x5702, k]));
  }
  // ---- a standard output that fails every write (/dev/full): a serial transfer is a
  // guest-controlled store; the host refusing the byte must not make the emulator panic.
  // (In process: the real binary cannot be used for this, its own loader banner is a
  // println! that panics on such a stream before any guest code runs - not guest-controlled.)
  {
    let u = unit;
    unit += 1;
    let resumed_here = matches!(r.ctx.resume, Some((c, _)) if c == u);
    if r.ctx.mine_sub(u) && !resumed_here {
      let image = support::make_image(0x00, 0x00, 0x00);
      let mut core = support::core_from_image(&image);
      let mp = &mut core.memory as *mut MemoryAreas;
      r.ctx.intent(&[u, 0, 0, 0x81, 0xff02, 8, 7]);
      use std::io::Write;
      let _ = std::io::stdout().flush();
      let full = std::ffi::CString::new("/dev/full").unwrap();
      unsafe {
        let fd = libc::open(full.as_ptr(), libc::O_WRONLY);
        if fd >= 0 {
          let saved = libc::dup(1);
          libc::dup2(fd, 1);
          libc::close(fd);
          for k in 0..300u32 {
            memory_write_byte(mp, 0xff01, 0x41 + (k % 26) as u8);
            memory_write_byte(mp, 0xff02, 0x81);
            core.memory.run_clock_cycles(crate::timing::ClockCycles(4 * 1200));
            failing_stdout_transfers += 1;
          }
          let _ = std::io::stdout().flush();
          libc::dup2(saved, 1);
          libc::close(saved);
        }
      }
      r.accesses += 300;
    }
  }
  r.ctx.sample("device storm: 30000 random writes per unit to LCD/timer/DMA/joypad/serial registers, OAM and VRAM (random contents), each followed by 4..2400 clocks of emulated time; nothing may panic");
  r.ctx.intent_clear();
  r.ctx.count("serial-transfers-with-a-failing-stdout", failing_stdout_transfers);
  r.ctx.count("device-storm:register-writes", storm_writes);
  r.ctx.count("device-storm:clocks-of-emulated-time", storm_clocks);
  r.ctx.count("evaluations", r.accesses);
  r.ctx.count("accesses-skipped(same class as an attributed crash)", r.skipped);
  r.ctx.count("configurations", configs);
  r.ctx.count("bank-states", states);
}

pub fn on_crash(intent: &[u64], text: &str, status: &str, _err: &str) -> Option<(String, String)> {
  let cfg = intent[2];
  let ct = (cfg >> 16) as u8;
  let mbc = match ct {
    0x00 => "rom-only",
    0x01..=0x03 => "mbc1",
    _ => "mbc3",
  };
  if intent[5] == 9 {
    return Some((
      format!("C11:{}:loader:{}:{}", mbc, status.replace(' ', ""), text),
      format!("loading a supported configuration (type {:02X} rom {:02X} ram {:02X}) killed the process", ct, (cfg >> 8) as u8, cfg as u8),
    ));
  }
  if intent[5] == 8 {
    return Some((
      format!("C11:device-storm:{}:{}", status.replace(' ', ""), text),
      format!(
        "cartridge type {:02X}: after write #{} ({:04X} <- {:02X}) of a random sequence of device-register/OAM/VRAM writes interleaved with emulated time, the emulator killed the process",
        ct, intent[1], intent[4], intent[3]
      ),
    ));
  }
  let region = REGION_NAMES[(intent[6] as usize).min(8)];
  let kind = KIND_NAMES[(intent[5] as usize).min(7)];
  Some((
    format!("C11:{}:{}:{}:{}:{}", mbc, region, kind, status.replace(' ', ""), text),
    format!(
      "type {:02X} rom code {:02X} ram code {:02X}, bank state {:X}: {} at {:04X} killed the process",
      ct,
      (cfg >> 8) as u8,
      cfg as u8,
      intent[3],
      kind,
      intent[4]
    ),
  ))
}
