//! C04 - recompiler on/off equivalence for whole programs, and C03 - the
//! translation cache is transparent (warm cache == cache emptied before every
//! block == interpreter, and the code executed for PC is a translation of the
//! bytes mapped there now).
//!
//! Two build variants run the same generated programs with the same symmetric
//! stepper. The non-jit worker (role "write") records a digest stream per
//! program; the jit worker (role "compare") replays and compares after every
//! step. The stream files live in the check's work directory.

use crate::emulator::{Core, RunState};
use crate::gen::program::{self, Asm};
use crate::mem::{memory_read_byte, MemoryAreas};
use crate::refmodel::cpu as refcpu;
use crate::rt::{hash_bytes, hash_words, Ctx, Rng};
use crate::support;
use crate::timing::ClockCycles;
use crate::verif::{self, EV_IRQ_VECTOR, EV_WRITE};
use std::io::{Read, Write};

/// the same code in both builds: block step when running, the two-line
/// suspended path otherwise
fn step(core: &mut Core) {
  if core.run_state == RunState::Run {
    core.run_code_block();
  } else {
    core.memory.run_clock_cycles(ClockCycles(4));
    core.handle_interrupt();
  }
}

pub const NPARTS: usize = 17;

pub struct Observer {
  pub serial_hash: u64,
  pub serial_count: u64,
  pub sb: u8,
  pub dispatches: [u64; 6],
  pub dma_starts: u64,
  pub bank_writes: u64,
  pub ram_blocks: u64,
  pub halted_steps: u64,
  /// RAM region hashes (vram, cart_ram, wram, oam, hram) are recomputed only
  /// for regions the step's write log touched, and all of them every 64 steps
  pub ram_hash: [u64; 5],
  pub dirty: [bool; 5],
}

impl Observer {
  pub fn new() -> Observer {
    Observer { serial_hash: 0, serial_count: 0, sb: 0, dispatches: [0; 6], dma_starts: 0, bank_writes: 0, ram_blocks: 0, halted_steps: 0, ram_hash: [0; 5], dirty: [true; 5] }
  }
  pub fn feed(&mut self) {
    for e in support::masked_events().iter() {
      if e.kind == EV_WRITE {
        match e.a {
          0x8000..=0x9fff => self.dirty[0] = true,
          0xa000..=0xbfff => self.dirty[1] = true,
          0xc000..=0xdfff => self.dirty[2] = true,
          0xfe00..=0xfe9f => self.dirty[3] = true,
          0xff80..=0xfffe => self.dirty[4] = true,
          _ => {}
        }
        match e.a {
          0xff01 => self.sb = e.b as u8,
          0xff02 => {
            if e.b & 0x80 != 0 {
              self.serial_count += 1;
              self.serial_hash = hash_words(&[self.serial_hash, self.sb as u64]);
            }
          }
          0xff46 => self.dma_starts += 1,
          a if a < 0x8000 => self.bank_writes += 1,
          _ => {}
        }
      } else if e.kind == EV_IRQ_VECTOR {
        let k = match e.a {
          0x40 => 0,
          0x48 => 1,
          0x50 => 2,
          0x58 => 3,
          0x60 => 4,
          _ => 5,
        };
        self.dispatches[k] += 1;
      }
    }
  }
}

/// labelled parts of the observable machine state
pub fn state_parts(core: &Core, obs: &mut Observer, with_frames: bool) -> [u64; NPARTS] {
  let r = support::regs_tuple(&core.registers);
  let mut p = [0u64; NPARTS];
  p[0] = hash_words(&[r[0] as u64, r[1] as u64, r[2] as u64, r[3] as u64, r[4] as u64, r[5] as u64, r[6] as u64, support::ime_code(&core.interrupts_enabled) as u64, support::run_code(&core.run_state) as u64]);
  let m = &core.memory;
  let regions: [&[u8]; 5] = [&m.video_ram, &m.cart_ram, &m.work_ram, &m.oam_ram, &m.high_ram];
  for i in 0..5 {
    // `with_frames` steps (every 64th and the last) re-hash everything: a change
    // that bypassed the bus would show up there
    if obs.dirty[i] || with_frames {
      obs.ram_hash[i] = hash_bytes(regions[i]);
      obs.dirty[i] = false;
    }
    p[1 + i] = obs.ram_hash[i];
  }
  let parts = support::device_parts(&core.memory);
  for (i, x) in parts.iter().enumerate() {
    p[6 + i] = x.1;
  }
  p[15] = hash_words(&[obs.serial_hash, obs.serial_count]);
  p[16] = if with_frames { support::frame_digest(&core.memory) } else { 0 };
  p
}

pub const PART_NAMES: [&str; NPARTS] = [
  "cpu-registers/ime/run-state", "vram", "cart_ram", "wram", "oam", "hram", "io_regs", "if_ie", "serial-regs", "timer", "ppu_pos", "dma", "joypad", "mbc", "banks", "serial-output", "frame-buffers",
];

fn stream_path(dir: &str, kind: &str, p: u64) -> String {
  format!("{}/{}-p{}.stream", dir, kind, p)
}

/// program for C04 (structured) or C03 (bank-switch heavy)
fn make_program(kind: &str, seed: u64, p: u64) -> (Vec<u8>, String) {
  if kind == "c03" {
    // small images make bank numbers wrap (a multiple of the bank count maps
    // bank 0 into the switchable window: bank 0 carries routines at the entry
    // offsets too); large ones exercise MBC1's upper bits and mode
    let (ct, rc) = match p % 8 {
      0 => (0x01u8, 0x02u8), // MBC1, 8 banks
      1 => (0x13, 0x04),     // MBC3, 32 banks
      2 => (0x03, 0x06),     // MBC1, 128 banks (upper bits, mode)
      3 => (0x11, 0x06),     // MBC3, 128 banks
      4 => (0x01, 0x52),     // MBC1, 72 banks: bank numbers reduce modulo a non-power-of-two
      5 => (0x13, 0x54),     // MBC3, 96 banks
      6 => (0x01, 0x00),     // MBC1 on a two-bank image: even bank numbers map bank 0 into the window
      _ => (0x11, 0x01),     // MBC3, 4 banks
    };
    bank_program(seed, p, ct, rc)
  } else {
    let (ct, rc) = match p % 4 {
      0 => (0x03u8, 0x02u8),
      1 => (0x13, 0x03),
      2 => (0x00, 0x00),
      _ => (0x01, 0x04),
    };
    let prog = program::generate(seed, p, ct, rc);
    (prog.image, prog.description)
  }
}

/// Every bank holds different code at the same entry addresses; a bank-0 driver
/// selects banks through every register area, calls into the banked area,
/// revisits banks, and falls through from bank 0 into the banked area.
pub fn bank_program(seed: u64, p: u64, cart_type: u8, rom_code: u8) -> (Vec<u8>, String) {
  let mut rng = Rng::from(&[seed, 0xc03, p]);
  let banks = support::rom_banks_for_code(rom_code);
  let mut image = support::make_image(cart_type, rom_code, 0x03);
  for i in 0..image.len() {
    image[i] = [0x76u8, 0x18, 0xfd, 0x00][i & 3];
  }
  // entry offsets that are free in bank 0 as well (the driver lives at 0x2000+)
  let entries: [u16; 5] = [0x4000, 0x4200, 0x4240, 0x4300, 0x5000];
  for bank in 0..banks {
    for (r, &e) in entries.iter().enumerate() {
      let mut a = Asm::new(e);
      // different lengths and different block structure per bank
      a.ld_a((bank as u8).wrapping_mul(7) ^ (r as u8));
      for _ in 0..((bank * 5 + r * 3) % 9) {
        a.b(&[*[0x3cu8, 0x0c, 0x14, 0x87, 0x2f, 0x1f].iter().nth((bank + r) % 6).unwrap()]);
      }
      a.b(&[0x81, 0x4f]); // ADD A,C; LD C,A
      if (bank + r) % 2 == 0 {
        a.b(&[0xd8]); // RET C: an extra block boundary in some banks
        a.b(&[0x0c]);
      }
      if (bank + r) % 5 == 0 {
        // serial output identifies the bank that really ran
        a.ld_a(0x30 + (bank % 64) as u8);
        a.ldh_to(0x01);
        a.ld_a(0x81);
        a.ldh_to(0x02);
      }
      a.b(&[0xc9]);
      let off = bank * 0x4000 + (e as usize - 0x4000);
      image[off..off + a.bytes.len()].copy_from_slice(&a.bytes);
    }
  }
  // "hop" routine at 0x5100 in every bank: does bank-specific work, then leaves through a
  // trampoline in high RAM that maps another bank and jumps to 0x5100 again. The same
  // address is entered twice in a row under two different banks, and no other ROM
  // block runs in between (code in RAM is not translated).
  let hop_mask = (banks.min(32) - 1) as u8;
  for bank in 0..banks {
    let mut a = Asm::new(0x5100);
    for _ in 0..(bank % 3) {
      a.b(&[0x1c]); // INC E
    }
    // (one single block: the hop counter lives in the trampoline, so that the block at
    // 0x5100 is the last translated block before the next one at 0x5100)
    a.ld_a((bank as u8).wrapping_mul(13) ^ 0x5a);
    a.b(&[0x81, 0x4f]); // ADD A,C; LD C,A
    a.ld_hl(0xc0f1);
    a.b(&[0x7e]); // LD A,(HL)
    a.b(&[0xc6, 1 + 2 * (bank % 4) as u8]); // ADD A,odd step
    a.b(&[0xe6, hop_mask, 0x77]); // AND mask; LD (HL),A
    a.ld_hl(0x5100);
    a.jp(0xff80);
    let off = bank * 0x4000 + 0x1100;
    image[off..off + a.bytes.len()].copy_from_slice(&a.bytes);
  }
  // "self-switch" routine at 0x4E00, byte for byte the same in every bank (the usual way to
  // switch banks from banked code): LD (0x2100),A ; LD A,(0x4F00) ; RET - it maps another bank
  // over itself and then reads a byte that differs from bank to bank
  for bank in 0..banks {
    let off = bank * 0x4000;
    image[off + 0x0e00..off + 0x0e07].copy_from_slice(&[0xea, 0x00, 0x21, 0xfa, 0x00, 0x4f, 0xc9]);
    image[off + 0x0f00] = (bank as u8).wrapping_mul(29) ^ 0xc3;
  }
  // "peek" routines in bank 0: fixed-bank code that READS the switchable window through an
  // absolute address. The routine is translated once; what it reads must follow the bank.
  for (k, &src) in [0x4002u16, 0x4201, 0x5001].iter().enumerate() {
    let mut a = Asm::new(0x3000 + 0x10 * k as u16);
    a.b(&[0xfa, src as u8, (src >> 8) as u8]); // LD A,(src)
    a.b(&[0x81, 0x4f, 0xc9]); // ADD A,C; LD C,A; RET
    let off = 0x3000 + 0x10 * k;
    image[off..off + a.bytes.len()].copy_from_slice(&a.bytes);
  }
  // the last two bytes of every bank: INC C; JP nn - the jump is cut by the end of the window,
  // its target comes from video RAM (0x8000/0x8001, set up by the driver: a stub in bank 0)
  // whatever bank is mapped and whatever lies behind that bank in the ROM image
  for bank in 0..banks {
    let off = bank * 0x4000;
    image[off + 0x3ffe] = 0x0c;
    image[off + 0x3fff] = 0xc3;
  }
  image[0x3040..0x3043].copy_from_slice(&[0x81, 0x4f, 0xc9]); // ADD A,C; LD C,A; RET
  image[0x3048..0x304c].copy_from_slice(&[0x81, 0x4f, 0x0c, 0xc9]); // a second target: ADD A,C; LD C,A; INC C; RET
  // bank-0 tail that falls through 0x3FFF -> 0x4000
  for i in 0x3ff8..0x4000usize {
    image[i] = 0x0c; // INC C
  }
  // every other program ends bank 0 with an instruction that is cut by the boundary:
  // ADD A,n with the opcode at 0x3FFF and n = the first byte of whatever bank is mapped
  // (a one-byte instruction that differs from bank to bank, see below)
  if p % 4 == 3 {
    // ... or with a three-byte instruction that begins at 0x3FFE: LD DE,nn, high byte from the bank
    image[0x3ffe] = 0x11;
    image[0x3fff] = 0x5a;
  } else if p % 2 == 1 {
    image[0x3fff] = 0xc6;
  }
  // the byte at 0x4000 of every bank: harmless as an instruction, different as an operand
  for bank in 0..banks {
    let first = [0x00u8, 0x0c, 0x14, 0x1c, 0x3c, 0x2f, 0x37, 0x3f][bank % 8];
    let off = bank * 0x4000;
    // shift the entry code at 0x4000 by one byte (it ends well before 0x4040)
    let mut k = 0x3e;
    while k > 0 {
      image[off + k] = image[off + k - 1];
      k -= 1;
    }
    image[off] = first;
  }
  // interrupt handlers: count and return
  for v in [0x40usize, 0x48, 0x50, 0x58, 0x60].iter() {
    image[*v] = 0x04; // INC B
    image[*v + 1] = 0xd9; // RETI
  }
  image[0x0150] = 0xc3; // JP 0x2000
  image[0x0151] = 0x00;
  image[0x0152] = 0x20;
  let mut a = Asm::new(0x2000);
  a.b(&[0xf3, 0x31, 0xfe, 0xff, 0x0e, 0x00]); // DI; LD SP,FFFE; LD C,0
  a.ld_a(0x01);
  a.ldh_to(0xff);
  // trampoline in high RAM: LD (0x2100),A ; LD A,(0xC0F0) ; DEC A ; LD (0xC0F0),A ; RET Z ; JP (HL)
  for (i, b) in [0xeau8, 0x00, 0x21, 0xfa, 0xf0, 0xc0, 0x3d, 0xea, 0xf0, 0xc0, 0xc8, 0xe9].iter().enumerate() {
    a.ld_a(*b);
    a.ldh_to(0x80 + i as u8);
  }
  // a routine in high RAM whose immediate operand is rewritten between calls:
  // LD A,n; ADD A,C; LD C,A; RET at 0xFFA0
  for (i, b) in [0x3eu8, 0x11, 0x81, 0x4f, 0xc9].iter().enumerate() {
    a.ld_a(*b);
    a.ldh_to(0xa0 + i as u8);
  }
  a.ld_a(0x40);
  a.ld_a_to(0x8000);
  a.ld_a(0x30);
  a.ld_a_to(0x8001);
  a.b(&[0xfb]);
  let main = a.here();
  let mbc1 = cart_type <= 0x03;
  let n = 30 + rng.below(60);
  let mut desc = format!("type {:02X} {} banks:", cart_type, banks);
  let mut recent: Vec<u8> = Vec::new();
  for _ in 0..n {
    if a.here() > 0x2d00 {
      break;
    }
    match rng.below(21) {
      19 | 20 => {
        // code in high RAM, changed after it has run: what runs is what high RAM holds now
        a.ld_a(rng.u8());
        a.ldh_to(0xa1);
        a.call(0xffa0);
        desc.push_str(" hramcode");
      }
      17 | 18 => {
        // leave the window through its last instruction, under an odd-numbered bank (an odd
        // low register value never maps bank 0, whose last bytes are the fall-through tail)
        let k = 1 + 2 * rng.below((banks.min(32) / 2) as u64) as u8;
        a.ld_a(k);
        a.ld_a_to(0x2100);
        // the low byte of the target is rewritten before every call: what the jump does must
        // follow video RAM, not what video RAM held when the jump was first seen
        let lo = if rng.chance(1, 2) { 0x40 } else { 0x48 };
        a.ld_a(lo);
        a.ld_a_to(0x8000);
        a.call(0x7ffe);
        desc.push_str(&format!(" tailjump{:02X}->30{:02X}", k, lo));
      }
      15 | 16 => {
        // banked code that maps another bank over itself and reads the window afterwards
        a.ld_a(rng.u8());
        a.call(0x4e00);
        a.b(&[0x81, 0x4f]); // ADD A,C; LD C,A
        desc.push_str(" selfswitch");
      }
      12..=14 => {
        // data read of the switchable window from bank-0 code, under whatever bank is mapped now
        a.call(0x3000 + 0x10 * rng.below(3) as u16);
        desc.push_str(" peek");
      }
      10 | 11 => {
        // a chain of hops through the high-RAM trampoline: 0x5100 under bank after bank
        a.ld_a(2 + rng.below(6) as u8);
        a.ld_a_to(0xc0f0);
        a.ld_a(rng.u8() & hop_mask);
        a.ld_a_to(0xc0f1);
        a.ld_hl(0x5100);
        a.call(0xff80);
        desc.push_str(" hops");
      }
      0..=3 => {
        // select a bank (new, or one visited before) and call into it
        let b = if !recent.is_empty() && rng.chance(1, 2) { *rng.pick(&recent) } else { rng.below(256) as u8 };
        recent.push(b);
        a.ld_a(b);
        a.ld_a_to(0x2000 + rng.below(0x2000) as u16);
        a.call(*rng.pick(&entries));
        desc.push_str(&format!(" b{:02X}", b));
      }
      4 => {
        if mbc1 {
          a.ld_a(rng.below(4) as u8);
          a.ld_a_to(0x4000 + rng.below(0x2000) as u16);
          desc.push_str(" hi");
        } else {
          a.ld_a(rng.below(4) as u8);
          a.ld_a_to(0x4000 + rng.below(0x2000) as u16);
        }
        a.call(*rng.pick(&entries));
      }
      5 => {
        if mbc1 {
          a.ld_a(rng.below(2) as u8);
          a.ld_a_to(0x6000 + rng.below(0x2000) as u16);
          desc.push_str(" mode");
        }
        a.call(*rng.pick(&entries));
      }
      6 => {
        // fall through from bank 0 into the current bank: CALL 0x3FF8
        a.call(0x3ff8);
        desc.push_str(" fall");
      }
      7 => {
        a.ld_a(rng.u8());
        a.ld_a_to(rng.below(0x2000) as u16); // RAM enable area: must not disturb anything
      }
      8 => {
        // same entry, two banks back to back
        let e = *rng.pick(&entries);
        for _ in 0..2 {
          a.ld_a(1 + rng.below(banks.min(255) as u64 - 1) as u8);
          a.ld_a_to(0x2100);
          a.call(e);
        }
        desc.push_str(" pair");
      }
      _ => {
        a.b(&[0x79]); // LD A,C
        a.ld_a_to(0xc000 + rng.below(0x100) as u16);
      }
    }
  }
  a.jp(main);
  image[0x2000..0x2000 + a.bytes.len()].copy_from_slice(&a.bytes);
  support::stamp_header(&mut image, cart_type, rom_code, 0x03);
  (image, desc)
}

fn decode_block_bytes(core: &Core, pc: u16, max: usize) -> Vec<u8> {
  // bytes of the block that starts at pc, through the data view (== fetch view for ROM)
  let mem = core.memory.as_ptr();
  let mut out = Vec::new();
  let mut at = pc;
  loop {
    let op = memory_read_byte(mem, at);
    let second = memory_read_byte(mem, at.wrapping_add(1));
    let info = refcpu::info(op, second);
    for i in 0..info.len as u16 {
      out.push(memory_read_byte(mem, at.wrapping_add(i)));
    }
    if info.block_end || info.undefined || out.len() >= max {
      break;
    }
    at = at.wrapping_add(info.len as u16);
  }
  out
}

pub fn run(ctx: &mut Ctx) {
  let kind = ctx.arg_str("kind").unwrap_or("c04").to_string();
  let role = ctx.arg_str("role").unwrap_or(if cfg!(feature = "jit") { "compare" } else { "write" }).to_string();
  // "stream-tag": a separate set of stream files for a pair of phases that slice the programs differently
  let dir = ctx
    .arg_str("streams")
    .map(|s| s.to_string())
    .unwrap_or_else(|| format!("{}/streams{}", support::work_dir(), ctx.arg_str("stream-tag").unwrap_or("")));
  let _ = std::fs::create_dir_all(&dir);
  let thorough = ctx.thorough();
  let seed = ctx.seed;
  let (nprog, steps): (u64, u64) = match (kind.as_str(), thorough) {
    ("c03", false) => (160, 5_000),
    ("c03", true) => (800, 10_000),
    (_, false) => (160, 6_000),
    (_, true) => (1000, 20_000),
  };
  let prop = if kind == "c03" { "C03" } else { "C04" };
  let cold_steps: u64 = if thorough { 600 } else { 200 };
  let mut evaluations = 0u64;
  let mut obs_tot = Observer::new();
  let mut cache_hits_after_switch = 0u64;
  let mut entries_seen = 0u64;
  let mut invariant_checks = 0u64;
  let mut frames_compared = 0u64;
  let mut cold_compared = 0u64;
  let mut cache_restarts = 0u64;
  let mut ended_by_panic = 0u64;
  // one extra program (C03 and C04, both tiers) whose translated footprint exceeds the code cache several times
  let extra = if ctx.arg_u64("cache-pressure", 1) != 0 { 1 } else { 0 };
  let mut jr_sites = 0u64;
  let mut cancelled_seen = 0u64;
  for p in 0..nprog + 4 * extra {
    if !ctx.mine(p) {
      continue;
    }
    ctx.intent(&[p, 0]);
    let pressure = p == nprog;
    // and one whose blocks take as long as a block can (65536 machine cycles)
    let long_duration = p == nprog + 1;
    // ~4 block steps per routine, ~5 KiB of host code per routine: the quick tier
    // fills the 8 MiB cache about twice, the thorough tier runs the whole program
    // every relative-jump displacement in a running program; dispatches cancelled by their own push
    let jr_ladder = p == nprog + 2;
    let cancelled = p == nprog + 3;
    let steps: u64 = if jr_ladder {
      1_700
    } else if cancelled {
      2_000
    } else if pressure {
      if thorough { 45_000 } else { 14_000 }
    } else if long_duration {
      if thorough { 520 } else { 72 }
    } else {
      steps
    };
    let (image, desc) = if pressure {
      crate::gen::pressure::cache_pressure_image()
    } else if long_duration {
      crate::gen::pressure::long_duration_image()
    } else if jr_ladder {
      crate::gen::pressure::jr_ladder_image()
    } else if cancelled {
      crate::gen::pressure::cancelled_dispatch_image(0x01)
    } else {
      make_program(&kind, seed, p)
    };
    let mut core = support::core_from_image(&image);
    let mut obs = Observer::new();
    let path = stream_path(&dir, &kind, p);
    if role == "write" {
      let mut buf: Vec<u8> = Vec::with_capacity((steps as usize) * 8 * (NPARTS + 1));
      for s in 0..steps {
        ctx.intent(&[p, s, core.registers.ip as u64]);
        if core.run_state != RunState::Run {
          obs.halted_steps += 1;
        } else if core.registers.ip >= 0x8000 {
          obs.ram_blocks += 1;
        }
        verif::start(false);
        unsafe {
          crate::rt::EXPECT_PANIC = true;
        }
        let r = {
          let c = &mut *core;
          std::panic::catch_unwind(std::panic::AssertUnwindSafe(|| step(c)))
        };
        unsafe {
          crate::rt::EXPECT_PANIC = false;
        }
        verif::stop();
        if r.is_err() {
          // the interpreter refused to go on (ran into data): the stream ends here
          ended_by_panic += 1;
          if std::env::var("GBV_DEBUG").is_ok() {
            let at = core.registers.ip;
            use std::io::Write as _;
            if let Ok(mut f) = std::fs::OpenOptions::new().create(true).append(true).open("/tmp/c04_debug.log") {
              let _ = writeln!(f, "program {} [{}] ended by an interpreter panic at step {} pc {:04X}", p, desc, s, at);
            }
          }
          break;
        }
        obs.feed();
        let parts = state_parts(&core, &mut obs, s % 64 == 63 || s + 1 == steps);
        for w in parts.iter() {
          buf.extend_from_slice(&w.to_le_bytes());
        }
        evaluations += 1;
      }
      std::fs::File::create(&path).and_then(|mut f| f.write_all(&buf)).expect("write stream");
    } else {
      // compare role (jit build): warm cache, cold cache (C03) and the recorded interpreter stream
      let mut data = Vec::new();
      match std::fs::File::open(&path) {
        Ok(mut f) => {
          let _ = f.read_to_end(&mut data);
        }
        Err(_) => {
          ctx.inconclusive(&format!("no interpreter stream for program {} ({})", p, path));
          continue;
        }
      }
      let recorded_steps = data.len() / (8 * NPARTS);
      let mut cold = if kind == "c03" { Some(support::core_from_image(&image)) } else { None };
      let mut cold_obs = Observer::new();
      // C03 invariant monitor: source bytes each cache entry was translated from
      let mut sources: std::collections::HashMap<(usize, u32), Vec<u8>> = std::collections::HashMap::new();
      let mut last_bank = core.memory.get_rom_bank();
      #[cfg(feature = "jit")]
      let mut last_cursor = 0usize;
      let mut switched_since: std::collections::HashSet<u32> = std::collections::HashSet::new();
      for s in 0..steps.min(recorded_steps as u64) {
        let pc = core.registers.ip as u16;
        ctx.intent(&[p, s, pc as u64]);
        if jr_ladder && pc >= 0x4000 && pc < 0x8000 && (pc - 0x4000) % 0x110 == 0x87 {
          jr_sites += 1;
        }
        if cancelled && pc == 0 {
          cancelled_seen += 1;
        }
        let running = core.run_state == RunState::Run;
        if !running {
          obs.halted_steps += 1;
        } else if pc >= 0x8000 {
          obs.ram_blocks += 1;
        }
        #[cfg(feature = "jit")]
        let (entries_before, mapped_before) = if kind == "c03" && running && pc < 0x8000 { (core.cache.verif_entries().len(), decode_block_bytes(&core, pc, 0x8000)) } else { (0, Vec::new()) };
        verif::start(false);
        unsafe {
          crate::rt::EXPECT_PANIC = true;
        }
        let stepped = {
          let c = &mut *core;
          std::panic::catch_unwind(std::panic::AssertUnwindSafe(|| step(c)))
        };
        unsafe {
          crate::rt::EXPECT_PANIC = false;
        }
        verif::stop();
        if let Err(e) = stepped {
          // the interpreter-only build took this step (it is in the stream): the
          // recompiler build gave up on a program the interpreter runs
          let msg = if let Some(s) = e.downcast_ref::<String>() {
            s.clone()
          } else if let Some(s) = e.downcast_ref::<&str>() {
            s.to_string()
          } else {
            "?".to_string()
          };
          let class: String = msg.chars().map(|c| if c.is_ascii_digit() { '#' } else { c }).collect();
          let mut class2 = String::new();
          for c in class.chars() {
            if !(c == '#' && class2.ends_with('#')) {
              class2.push(c);
            }
          }
          #[cfg(feature = "jit")]
          let cache_note = {
            let (_, _, cursor, cap) = core.cache.verif_layout();
            format!("code cache: {} of {} bytes used, {} blocks cached", cursor, cap, core.cache.verif_entries().len())
          };
          #[cfg(not(feature = "jit"))]
          let cache_note = String::new();
          ctx.violation(
            &format!("{}:jit-build-panicked:{}", prop, class2),
            &format!("program #{} [{}] step {} (block at {:04X}): the jit build panicked ({}) where the interpreter-only build went on; {}", p, desc, s, pc, msg, cache_note),
          );
          break;
        }
        obs.feed();
        #[cfg(feature = "jit")]
        {
          // the write cursor of the code cache only goes back when the cache starts over
          let (_, _, cursor, _) = core.cache.verif_layout();
          let restarted = cursor < last_cursor;
          if restarted {
            cache_restarts += 1;
            // every entry the monitor knew is gone; the block just run was translated afresh
            sources.clear();
          }
          last_cursor = cursor;
          if kind == "c03" && running && pc < 0x8000 {
            let entries = core.cache.verif_entries();
            let banks = core.cache.verif_region_banks();
            // (blocks that begin at 0x3FFE/0x3FFF can hold operand bytes of the switchable bank
            // and are cached with the bank since fix #23)
            let region = if pc < 0x3ffe { 0usize } else { 1 };
            let key = ((banks[region] as u32) << 16) | pc as u32;
            invariant_checks += 1;
            if entries.len() > entries_before || restarted {
              // a miss: remember what the new entry was translated from
              if let Some(e) = entries.iter().find(|e| e.0 == region && e.1 == key) {
                let n = e.4.min(mapped_before.len());
                sources.insert((region, key), mapped_before[..n].to_vec());
                entries_seen += 1;
              }
            } else if let Some(src) = sources.get(&(region, key)) {
              // a hit: the remembered source must equal what is mapped now
              let n = src.len().min(mapped_before.len());
              if src[..n] != mapped_before[..n] || src.len() > mapped_before.len() {
                ctx.violation(
                  &format!("C03:stale-translation-executed:{}", if pc < 0x4000 { "block-starting-in-bank0" } else { "block-in-switchable-bank" }),
                  &format!(
                    "program #{} [{}] step {}: cache hit for PC {:04X} (cache bank key {}), translated from [{}] but the bytes mapped now (ROM bank {}) are [{}]",
                    p, desc, s, pc, banks[region], support::hexbytes(&src[..src.len().min(12)]), core.memory.get_rom_bank(), support::hexbytes(&mapped_before[..mapped_before.len().min(12)])
                  ),
                );
              }
              if switched_since.contains(&(pc as u32)) {
                cache_hits_after_switch += 1;
              }
            }
            let now_bank = core.memory.get_rom_bank();
            if now_bank != last_bank {
              last_bank = now_bank;
              for k in sources.keys() {
                switched_since.insert(k.1 & 0xffff);
              }
            }
          }
        }
        let with_frames = s % 64 == 63 || s + 1 == steps;
        let parts = state_parts(&core, &mut obs, with_frames);
        if with_frames {
          frames_compared += 1;
        }
        evaluations += 1;
        // ---- against the interpreter-only build
        let base = (s as usize) * 8 * NPARTS;
        let mut diff: Vec<&str> = Vec::new();
        for i in 0..NPARTS {
          let mut w = [0u8; 8];
          w.copy_from_slice(&data[base + i * 8..base + i * 8 + 8]);
          if u64::from_le_bytes(w) != parts[i] {
            diff.push(PART_NAMES[i]);
          }
        }
        if !diff.is_empty() {
          let r = support::regs_tuple(&core.registers);
          ctx.violation(
            &format!("{}:jit-vs-interpreter:{}", prop, diff[0]),
            &format!(
              "program #{} [{}] step {} (block at {:04X}, bytes [{}]): state differs from the interpreter-only build in: {} | jit state: {} IME={} run={}",
              p, desc, s, pc, support::hexbytes(&decode_block_bytes(&core, pc, 24)), diff.join(", "), support::fmt_regs(&r), support::ime_code(&core.interrupts_enabled), support::run_code(&core.run_state)
            ),
          );
          break;
        }
        // ---- against a cache emptied before every block
        // (creating an empty 8 MiB code cache per block is expensive in this
        // sandbox: the cold core follows the first part of every program)
        if s >= cold_steps {
          cold = None;
        }
        if let Some(c) = cold.as_mut() {
          #[cfg(feature = "jit")]
          {
            // an empty cache for every block that would use the cache
            if c.run_state == RunState::Run && c.registers.ip < 0x8000 {
              c.cache = crate::cache::CodeCache::new();
            }
          }
          verif::start(false);
          step(c);
          verif::stop();
          cold_obs.feed();
          cold_compared += 1;
          let cparts = state_parts(c, &mut cold_obs, with_frames);
          if cparts != parts {
            let which: Vec<&str> = (0..NPARTS).filter(|&i| cparts[i] != parts[i]).map(|i| PART_NAMES[i]).collect();
            ctx.violation(
              &format!("C03:warm-vs-cold-cache:{}", which[0]),
              &format!("program #{} [{}] step {} (block at {:04X}): warm cache and a cache emptied before every block differ in: {}", p, desc, s, pc, which.join(", ")),
            );
            break;
          }
        }
      }
      if recorded_steps == 0 {
        ctx.inconclusive(&format!("empty interpreter stream for program {}", p));
      }
    }
    for i in 0..6 {
      obs_tot.dispatches[i] += obs.dispatches[i];
    }
    obs_tot.serial_count += obs.serial_count;
    obs_tot.dma_starts += obs.dma_starts;
    obs_tot.bank_writes += obs.bank_writes;
    obs_tot.ram_blocks += obs.ram_blocks;
    obs_tot.halted_steps += obs.halted_steps;
    ctx.distinct_key(hash_words(&[p, seed, hash_bytes(kind.as_bytes())]));
    if ctx.want_sample() && p % 29 == 3 {
      ctx.sample(&format!("{} role {}: program #{} [{}]: {} steps, digest of registers/IME/run state, all RAMs, I/O registers, IF/IE, timer phase, LCD position, DMA progress, joypad latch, MBC registers, serial output so far (frame buffers every 64 steps) after every step", prop, role, p, desc.trim(), steps));
    }
  }
  // ---- a block in the switchable bank that maps another bank over itself, where the two
  // banks hold DIFFERENT code behind the store (the program generators only ever use routines
  // that are byte for byte the same in every bank for this): what runs behind the store must
  // be the bank mapped then. Run in every build: the interpreter fetches instruction by
  // instruction and gets it right; the recompiler finishes the block it translated from the
  // old bank (a recorded finding, see known_findings.json)
  if role != "write" && kind == "c03" && ctx.mine(nprog + 3) {
    ctx.intent(&[nprog + 3, 0]);
    for (ci, &(ct, rc)) in [(0x01u8, 0x01u8), (0x11, 0x02), (0x13, 0x05)].iter().enumerate() {
      let mut image = support::make_image(ct, rc, 0x00);
      for i in 0..image.len() {
        image[i] = [0x76u8, 0x18, 0xfd, 0x00][i & 3];
      }
      // bank 1: LD (HL),A ; INC B ; HALT    bank 2: LD (HL),A ; INC C ; HALT
      image[0x4000..0x4003].copy_from_slice(&[0x77, 0x04, 0x76]);
      image[0x8000..0x8003].copy_from_slice(&[0x77, 0x0c, 0x76]);
      support::stamp_header(&mut image, ct, rc, 0x00);
      let mut core = support::core_from_image(&image);
      core.registers.ip = 0x4000;
      core.registers.sp = 0xdff0;
      core.registers.af = 0x0200;
      core.registers.bc = 0x0000;
      core.registers.hl = 0x2100;
      core.run_state = RunState::Run;
      step(&mut core);
      evaluations += 1;
      let bc = core.registers.bc;
      if bc != 0x0001 {
        ctx.violation(
          "C03:block-remaps-its-own-bank:rest-of-the-block-from-the-old-bank",
          &format!(
            "cartridge type {:02X}: bank 1 holds LD (HL),A; INC B; HALT at 0x4000 and bank 2 LD (HL),A; INC C; HALT; entered under bank 1 with A=2, HL=0x2100: BC={:04X} afterwards (the bytes mapped behind the store are bank 2's: BC=0001)",
            ct, bc
          ),
        );
      }
      ctx.distinct_key(hash_words(&[nprog + 3, ci as u64]));
    }
  }
  // ---- the largest block there can be (a whole 16 KiB bank of the instruction with the
  // largest translation, DAA) translated at the worst moment: the cache is filled with
  // small blocks until the room left is just above the level at which the recompiler
  // would start over, then the bank is entered. The interpreter-only build simply runs
  // it; the jit build must not run out of its buffer.
  #[cfg(feature = "jit")]
  {
    if role != "write" && kind == "c04" && ctx.mine(nprog + 2) {
      ctx.intent(&[nprog + 2, 0]);
      let mut image = support::make_image(0x01, 0x01, 0x00);
      for i in 0..image.len() {
        image[i] = [0x76u8, 0x18, 0xfd, 0x00][i & 3];
      }
      for i in 0x1000..0x3f00usize {
        image[i] = 0x1c; // INC E
      }
      image[0x3f00] = 0xc9;
      for i in 0x4000..0x7fffusize {
        image[i] = 0x27; // DAA
      }
      image[0x7fff] = 0xc9;
      support::stamp_header(&mut image, 0x01, 0x01, 0x00);
      // attempt(stop): on a fresh core, fill the cache with blocks of INC E until at most `stop`
      // bytes are left (or until the recompiler starts over by itself: result 3, with the lowest
      // level it let the cache reach), then enter the DAA bank. 0 = the recompiler started over
      // before translating it, 1 = it fitted, 2 = the jit build panicked
      let attempt = |stop: usize| -> (u8, usize, String) {
        let mut core = support::core_from_image(&image);
        let mut room;
        let mut prev_room = usize::MAX;
        let mut k = 0u32;
        loop {
          let (_, _, cursor, cap) = core.cache.verif_layout();
          room = cap - cursor;
          if room > prev_room {
            return (3, prev_room, String::new());
          }
          prev_room = room;
          if room <= stop || k > 6000 {
            break;
          }
          let n: u32 = if room > stop + 0x30000 && room > 0x500000 { 2000 } else { 128 };
          core.registers.ip = 0x3f00 - n - (k % 1500);
          core.registers.sp = 0xdff0;
          core.run_state = RunState::Run;
          core.memory.work_ram[0x1ff0] = 0x50;
          core.memory.work_ram[0x1ff1] = 0x01;
          core.run_code_block();
          k += 1;
        }
        let before = core.cache.verif_layout().2;
        let mp = &mut core.memory as *mut MemoryAreas;
        crate::mem::memory_write_byte(mp, 0x2100, 1);
        core.registers.ip = 0x4000;
        core.registers.sp = 0xdff0;
        core.run_state = RunState::Run;
        core.memory.work_ram[0x1ff0] = 0x50;
        core.memory.work_ram[0x1ff1] = 0x01;
        unsafe {
          crate::rt::EXPECT_PANIC = true;
        }
        let r = {
          let c = &mut *core;
          std::panic::catch_unwind(std::panic::AssertUnwindSafe(|| c.run_code_block()))
        };
        unsafe {
          crate::rt::EXPECT_PANIC = false;
        }
        match r {
          Err(e) => (2, room, e.downcast_ref::<String>().cloned().or_else(|| e.downcast_ref::<&str>().map(|s| s.to_string())).unwrap_or_default()),
          Ok(_) => {
            let after = core.cache.verif_layout().2;
            (if after < before + 0x100000 { 0 } else { 1 }, room, String::new())
          }
        }
      };
      // first find the lowest level the recompiler lets the cache reach while small blocks are
      // being translated; then enter the largest block at exactly that level and at a few levels
      // above it (around the block's own size in particular): none may panic
      let mut probes = 0u64;
      let mut bad: Option<(usize, String)> = None;
      let (res0, lowest, msg0) = attempt(0);
      probes += 1;
      evaluations += 1;
      if res0 == 2 {
        bad = Some((lowest, msg0));
      }
      let hi = lowest;
      if bad.is_none() {
        let mut fitted = 0u64;
        let mut restarted = 0u64;
        for stop in [lowest, lowest + 0x1000, lowest + 0x8000, lowest + 0x40000, lowest + 0x100000, 0x230000, 0x234000, 0x238000, 0x300000, 0x500000].iter() {
          if *stop < lowest || (res0 != 3 && *stop == lowest) {
            continue;
          }
          let (res, room, msg) = attempt(*stop);
          probes += 1;
          evaluations += 1;
          match res {
            2 => {
              bad = Some((room, msg));
              break;
            }
            0 => restarted += 1,
            1 => fitted += 1,
            _ => {}
          }
        }
        ctx.count("largest-block:entered-and-fitted", fitted);
        ctx.count("largest-block:entered-after-restart", restarted);
      }
      ctx.count("largest-block:room-levels-probed", probes);
      ctx.count("largest-block:lowest-cache-level-reached", hi as u64);
      if let Some((room, msg)) = bad {
        ctx.violation(
          "C04:jit-build-panicked:largest-block-does-not-fit",
          &format!("a bank filled with 16383 x DAA + RET, entered with {} bytes of the code cache left: the jit build panicked ({}); the interpreter-only build runs the block", room, msg),
        );
      }
      ctx.distinct_key(hash_words(&[nprog + 2, 0xdaa]));
    }
  }
  ctx.intent_clear();
  ctx.count("evaluations", evaluations);
  if role == "write" {
    ctx.count("interp:programs-ended-by-a-panic", ended_by_panic);
  }
  let tag = if role == "write" { "interp" } else { "jit" };
  ctx.count(&format!("{}:dispatches:vblank", tag), obs_tot.dispatches[0]);
  ctx.count(&format!("{}:dispatches:stat", tag), obs_tot.dispatches[1]);
  ctx.count(&format!("{}:dispatches:timer", tag), obs_tot.dispatches[2]);
  ctx.count(&format!("{}:serial-bytes", tag), obs_tot.serial_count);
  ctx.count(&format!("{}:dma-transfers", tag), obs_tot.dma_starts);
  ctx.count(&format!("{}:bank-register-writes", tag), obs_tot.bank_writes);
  ctx.count(&format!("{}:ram-resident-blocks", tag), obs_tot.ram_blocks);
  ctx.count(&format!("{}:suspended-steps", tag), obs_tot.halted_steps);
  if role != "write" {
    ctx.count("steps-compared-with-interpreter-build", evaluations);
    if extra != 0 {
      ctx.count("relative-jump-ladder:sites-entered", jr_sites);
      ctx.count("blocks-entered-at-0000-after-a-dispatch-cancelled-by-its-push", cancelled_seen);
    }
    ctx.count("frame-buffer-comparisons", frames_compared);
    ctx.count("code-cache-restarts-observed", cache_restarts);
    if kind == "c03" {
      ctx.count("cache-invariant-checks", invariant_checks);
      ctx.count("steps-compared-with-cache-emptied-before-every-block", cold_compared);
      ctx.count("cache-entries-observed", entries_seen);
      ctx.count("cache-hits-after-a-bank-switch", cache_hits_after_switch);
    }
  }
}

pub fn on_crash(intent: &[u64], text: &str, status: &str, _err: &str) -> Option<(String, String)> {
  // the signature prefix is fixed up by the driver's property filter: report under both
  Some((
    format!("C04:crash:{}:{}", status.replace(' ', ""), text),
    format!("the emulator killed the process: program #{} step {} block at {:04X}", intent[0], intent[1], intent[2]),
  ))
}
