//! C17 - P1 reflects the button matrix; the joypad interrupt is requested
//! exactly on a falling input line, once. Complete transition relation.

use crate::devices::io::IO;
use crate::devices::joypad::{Button, Joypad};
use crate::rt::{hash_words, Ctx};
use crate::timing::ClockCycles;

fn button(i: u8) -> Button {
  match i {
    0 => Button::A,
    1 => Button::B,
    2 => Button::Select,
    3 => Button::Start,
    4 => Button::Right,
    5 => Button::Left,
    6 => Button::Up,
    _ => Button::Down,
  }
}

const BUTTON_NAMES: [&str; 8] = ["A", "B", "Select", "Start", "Right", "Left", "Up", "Down"];

/// state: bits 0-3 action buttons (A,B,Select,Start), bits 4-7 direction buttons
/// (Right,Left,Up,Down); sel: bit 4 (directions, active low), bit 5 (actions, active low)
fn lines(buttons: u8, sel: u8) -> u8 {
  let mut low = 0u8;
  if sel & 0x10 == 0 {
    low |= buttons >> 4;
  }
  if sel & 0x20 == 0 {
    low |= buttons & 0x0f;
  }
  !low & 0x0f
}

fn p1(buttons: u8, sel: u8) -> u8 {
  (sel & 0x30) | lines(buttons, sel)
}

fn setup(j: &mut Joypad, buttons: u8, sel: u8) {
  for b in 0..8u8 {
    if buttons & (1 << b) != 0 {
      j.press_button(button(b));
    }
  }
  j.set_value(sel);
  let _ = j.get_interrupt();
}

pub fn run(ctx: &mut Ctx) {
  let mut evaluations = 0u64;
  let mut falling = 0u64;
  let mut pairs = 0u64;
  let mut pairs_first_only = 0u64;
  let vram = vec![0u8; 0x2000].into_boxed_slice();
  let oam = vec![0u8; 0xa0].into_boxed_slice();
  for buttons in 0..=255u16 {
    let buttons = buttons as u8;
    if !ctx.mine(buttons as u64) {
      continue;
    }
    ctx.intent2(buttons as u64, 0);
    for seli in 0..4u8 {
      let sel = seli << 4;
      // 8 presses, 8 releases, 4 selection writes
      for action in 0..20u8 {
        let (nb, ns, name) = if action < 8 {
          (buttons | (1 << action), sel, format!("press {}", BUTTON_NAMES[action as usize]))
        } else if action < 16 {
          (buttons & !(1 << (action - 8)), sel, format!("release {}", BUTTON_NAMES[(action - 8) as usize]))
        } else {
          (buttons, (action - 16) << 4, format!("write P1={:02X}", ((action - 16) << 4) | 0xcf))
        };
        let before = lines(buttons, sel);
        let after = lines(nb, ns);
        let want_irq = before & !after != 0;
        if want_irq {
          falling += 1;
        }
        // --- directly on the Joypad
        let mut j = Joypad::new();
        setup(&mut j, buttons, sel);
        let p_before = j.get_value() & 0x3f;
        if action < 8 {
          j.press_button(button(action));
        } else if action < 16 {
          j.release_button(button(action - 8));
        } else {
          j.set_value(((action - 16) << 4) | 0xcf);
        }
        let got_p1 = j.get_value() & 0x3f;
        let raw1 = j.get_interrupt().as_u8();
          if raw1 & !0x10 != 0 {
            ctx.violation("C17:interrupt:other-bits", &format!("buttons {:08b}: the joypad returned request bits {:02X}; it may request the joypad interrupt (bit 4) and nothing else", buttons, raw1));
          }
          let irq1 = raw1 & 0x10 != 0;
        let irq2 = j.get_interrupt().as_u8() != 0;
        evaluations += 1;
        let what = if action < 8 {
          "press"
        } else if action < 16 {
          "release"
        } else {
          "select-write"
        };
        let ctxs = format!("buttons {:08b} (Down..A), selection bits {:02X}, {}: lines {:04b} -> {:04b}", buttons, sel, name, before, after);
        if p_before != p1(buttons, sel) {
          ctx.violation("C17:p1:before-action", &format!("{}: P1 reads {:02X}, reference {:02X}", ctxs, p_before, p1(buttons, sel)));
        }
        if got_p1 != p1(nb, ns) {
          ctx.violation(&format!("C17:p1:after-{}", what), &format!("{}: P1 reads {:02X}, reference {:02X}", ctxs, got_p1, p1(nb, ns)));
        }
        if irq1 != want_irq {
          ctx.violation(
            &format!("C17:interrupt:{}:{}", what, if want_irq { "missing" } else { "spurious" }),
            &format!("{}: interrupt requested={}, reference {}", ctxs, irq1, want_irq),
          );
        }
        if irq2 {
          ctx.violation(&format!("C17:interrupt:{}:reported-twice", what), &format!("{}: a second get_interrupt() still reports a request", ctxs));
        }
        // --- through the I/O decoder (selection writes and read-back; buttons through the device)
        let mut io = IO::new();
        setup(&mut io.joypad, buttons, sel);
        if action < 8 {
          io.joypad.press_button(button(action));
        } else if action < 16 {
          io.joypad.release_button(button(action - 8));
        } else {
          io.set_byte(0xff00, ((action - 16) << 4) | 0xcf);
        }
        let bus_p1 = io.get_byte(0xff00) & 0x3f;
        io.run_clock_cycles(ClockCycles(4), &vram, &oam);
        let if1 = io.interrupt_flag.as_u8() & 0x10 != 0;
        io.interrupt_flag.clear(0x10);
        io.run_clock_cycles(ClockCycles(4), &vram, &oam);
        let if2 = io.interrupt_flag.as_u8() & 0x10 != 0;
        evaluations += 1;
        if bus_p1 != p1(nb, ns) {
          ctx.violation(&format!("C17:io:p1:after-{}", what), &format!("{}: bus read of FF00 gives {:02X}, reference {:02X}", ctxs, bus_p1, p1(nb, ns)));
        }
        if if1 != want_irq {
          ctx.violation(
            &format!("C17:io:interrupt:{}:{}", what, if want_irq { "missing" } else { "spurious" }),
            &format!("{}: IF bit 4 after the next device catch-up = {}, reference {}", ctxs, if1, want_irq),
          );
        }
        if if2 {
          ctx.violation(&format!("C17:io:interrupt:{}:reported-twice", what), &format!("{}: IF bit 4 raised again by the following catch-up", ctxs));
        }
        ctx.distinct_key(hash_words(&[buttons as u64, seli as u64, action as u64]));
      }
    }
    // ---- two actions before the request is collected: a request raised by the first
    // must survive a second action that raises none ("is reported once" - not "unless
    // something else happens first")
    for seli in 0..4u8 {
      let sel = seli << 4;
      for a1 in 0..20u8 {
        for a2 in 0..20u8 {
          let step = |b: u8, s: u8, a: u8| -> (u8, u8) {
            if a < 8 {
              (b | (1 << a), s)
            } else if a < 16 {
              (b & !(1 << (a - 8)), s)
            } else {
              (b, (a - 16) << 4)
            }
          };
          let (b1, s1) = step(buttons, sel, a1);
          let (b2, s2) = step(b1, s1, a2);
          let f1 = lines(buttons, sel) & !lines(b1, s1) != 0;
          let f2 = lines(b1, s1) & !lines(b2, s2) != 0;
          let want = f1 || f2;
          let mut j = Joypad::new();
          setup(&mut j, buttons, sel);
          for &a in [a1, a2].iter() {
            if a < 8 {
              j.press_button(button(a));
            } else if a < 16 {
              j.release_button(button(a - 8));
            } else {
              j.set_value(((a - 16) << 4) | 0xcf);
            }
          }
          let got_p1 = j.get_value() & 0x3f;
          let raw1 = j.get_interrupt().as_u8();
          if raw1 & !0x10 != 0 {
            ctx.violation("C17:interrupt:other-bits", &format!("buttons {:08b}: the joypad returned request bits {:02X}; it may request the joypad interrupt (bit 4) and nothing else", buttons, raw1));
          }
          let irq1 = raw1 & 0x10 != 0;
          let irq2 = j.get_interrupt().as_u8() != 0;
          evaluations += 1;
          pairs += 1;
          if f1 && !f2 {
            pairs_first_only += 1;
          }
          if got_p1 != p1(b2, s2) || irq1 != want || irq2 {
            let what = if got_p1 != p1(b2, s2) {
              "p1"
            } else if irq2 {
              "interrupt:reported-twice"
            } else if want {
              if f1 && !f2 {
                "interrupt:lost-by-a-later-action"
              } else {
                "interrupt:missing"
              }
            } else {
              "interrupt:spurious"
            };
            ctx.violation(
              &format!("C17:two-actions:{}", what),
              &format!(
                "buttons {:08b} (Down..A), selection bits {:02X}, actions #{} then #{} (0-7 press, 8-15 release, 16-19 selection write) without collecting in between: P1 {:02X} (reference {:02X}), interrupt requested={} (reference {}: first action falling={}, second falling={}), second collection={}",
                buttons, sel, a1, a2, got_p1, p1(b2, s2), irq1, want, f1, f2, irq2
              ),
            );
          }
        }
      }
    }
    if ctx.want_sample() && buttons % 67 == 5 {
      ctx.sample(&format!("buttons {:08b} x 4 selections x 20 actions (8 presses, 8 releases, 4 selection writes): P1 & 0x3F and the interrupt request, on the Joypad and through IO (FF00 read-back, IF bit 4 collected by run_clock_cycles, reported once)", buttons));
    }
  }
  ctx.count("evaluations", evaluations);
  ctx.count("transitions-with-a-falling-line", falling);
  ctx.count("two-action-sequences", pairs);
  ctx.count("two-action-sequences:only-the-first-falls", pairs_first_only);
}

pub fn on_crash(intent: &[u64], text: &str, status: &str, _err: &str) -> Option<(String, String)> {
  Some((format!("C17:crash:{}:{}", status.replace(' ', ""), text), format!("joypad handling killed the process (button state {:02X})", intent[0])))
}
