// Generates mods.rs: one `#[path = "<repo>/src/..."] pub mod x;` per module
// declared in the repository's main.rs (except the UI shell and the Windows
// bindings), keeping any cfg attribute that precedes the declaration.
use std::env;
use std::fs;
use std::path::Path;

fn main() {
  let repo = env::var("GBV_REPO").unwrap_or_else(|_| "/repo".to_string());
  println!("cargo:rerun-if-env-changed=GBV_REPO");
  println!("cargo:rerun-if-changed={}/src", repo);
  println!("cargo:rerun-if-changed={}/src/main.rs", repo);
  println!("cargo:rerun-if-changed=build.rs");
  let main_rs = fs::read_to_string(format!("{}/src/main.rs", repo)).expect("read main.rs");
  let mut out = String::new();
  let mut pending_attrs: Vec<String> = Vec::new();
  for line in main_rs.lines() {
    let t = line.trim();
    if t.starts_with("#[") {
      pending_attrs.push(t.to_string());
      continue;
    }
    let decl = t.strip_prefix("pub mod ").or_else(|| t.strip_prefix("mod "));
    if let Some(rest) = decl {
      if let Some(name) = rest.strip_suffix(';') {
        let name = name.trim();
        if name != "shell" && name != "bindings" {
          let file = format!("{}/src/{}.rs", repo, name);
          let dir = format!("{}/src/{}/mod.rs", repo, name);
          let path = if Path::new(&file).exists() { file } else { dir };
          for a in &pending_attrs {
            out.push_str(a);
            out.push('\n');
          }
          out.push_str(&format!("#[allow(warnings)]\n#[path = \"{}\"]\npub mod {};\n", path, name));
        }
      }
    }
    pending_attrs.clear();
    if t.starts_with("fn ") || t.starts_with("use ") {
      // module declarations come first in main.rs; stop at the first item
      if t.starts_with("fn ") {
        break;
      }
    }
  }
  let out_dir = env::var("OUT_DIR").unwrap();
  fs::write(Path::new(&out_dir).join("mods.rs"), out).unwrap();
  fs::write(Path::new(&out_dir).join("repo_path.txt"), &repo).unwrap();
}
