"""Registry of build variants and per-property checks (phases = monitor x build variant)."""

VARIANTS = {
    # name: how the harness crate is built. Every variant compiles /repo/src into the harness.
    "interp-dbg": {"features": "verif"},
    "interp-rel": {"features": "verif", "release": True},
    "jit-dbg": {"features": "verif jit"},
    "jit-rel": {"features": "verif jit", "release": True},
    "jit-asan": {
        "features": "verif jit",
        "toolchain": "nightly",
        "target": "x86_64-unknown-linux-gnu",
        "rustflags": "-Zsanitizer=address -Cforce-frame-pointers=yes",
        "release": True,
    },
    "repo-bin": {"kind": "repo-bin", "features": ""},
    "repo-bin-jit": {"kind": "repo-bin", "features": "jit"},
}

REFCPU = "reference SM83 model /verif/harness/src/refmodel/cpu.rs (written from the public opcode tables, octal decode) is the oracle"

CHECKS = {
    "C01": {
        "title": "translated block == interpreted block (registers, PC, SP, status, bus writes in order, device state, host integrity)",
        "level": "exploration",
        "rule": "cases = (ROM placement, block bytes, entry register image): the block is translated by CodeCache::translate_code_block and run through "
                "CodeCache::call (or a register-sentinel trampoline) on core A, and interpreted by interpreter::run_code_block on an identical core B; "
                "compared: AF BC DE HL SP PC (32-bit fields), status, hook-H1 bus-write logs (address, value, order), device/bank state digests, register-file "
                "canaries, callee-saved host registers, worker survival. distinct_nontrivial = distinct (family, opcode/immediate/pointer-page) keys executed",
        "phases": [
            {"variant": "jit-dbg", "monitor": "c01", "shards": 16},
            {"variant": "jit-rel", "monitor": "c01", "shards": 16, "tiers": ("thorough",)},
        ],
        # 244 unprefixed instructions (the CB prefix byte itself is not one) + 256 CB-prefixed = 500 executable encodings
        "floors": {"quick": {"evaluations": 3_000_000, "encodings-executed-x16-flags": 500}, "thorough": {"evaluations": 20_000_000, "encodings-executed-x16-flags": 1000}},
        "exhaustive": {"quick": False, "thorough": False},
        "assumptions": ["the repository's interpreter is the referee (as the property states); its own conformance is C05/C06",
                        "domain exclusions (counted): bank-register write inside a block executing from the switchable bank; blocks on which the interpreter itself panics"],
    },
    "C02": {
        "title": "translated and interpreted code charge identical machine cycles",
        "level": "exploration",
        "rule": "same executions as C01; compared: Registers.cycles after the block in both engines (reference cycle table as third voter in the witness); "
                "every one of the 501 encodings x 16 flag nibbles (both outcomes of every conditional) plus random multi-instruction blocks",
        "phases": [
            {"variant": "jit-dbg", "monitor": "c01", "shards": 16},
            {"variant": "jit-rel", "monitor": "c01", "shards": 16, "tiers": ("thorough",)},
        ],
        # 244 unprefixed instructions (the CB prefix byte itself is not one) + 256 CB-prefixed = 500 executable encodings
        "floors": {"quick": {"evaluations": 3_000_000, "encodings-executed-x16-flags": 500}, "thorough": {"evaluations": 20_000_000, "encodings-executed-x16-flags": 1000}},
        "exhaustive": {"quick": True, "thorough": True},
        "assumptions": ["exhaustive refers to the 501 encodings x 16 flag nibbles table; multi-instruction sums are sampled"],
    },
    "C05": {
        "title": "interpreter data semantics vs SM83 reference",
        "level": "exploration",
        "rule": "cases = (opcode, register image, operand placement) executed by interpreter::run_next_op on a real MemoryAreas and compared field by field "
                "(AF BC DE HL SP, F low nibble, bus writes in order, values within 0..65535) with the reference model; enumerated exhaustively per family "
                "(A x operand x F for 8-bit ALU, value x F for unary/CB, all 2^16 for INC/DEC rr, SP x e8 for SP offsets, every pointer value for memory forms); "
                "distinct_nontrivial counts distinct (family, opcode, high operand byte or A value, flag nibble) keys actually executed, unioned over shards",
        "phases": [
            {"variant": "interp-dbg", "monitor": "c05", "shards": 16, "tiers": ("quick",)},
            {"variant": "interp-rel", "monitor": "c05", "shards": 16, "tiers": ("thorough",)},
            {"variant": "interp-dbg", "monitor": "c05", "shards": 16, "tiers": ("thorough",), "name": "c05@interp-dbg(quick workload, overflow checks on)", "thorough_args": {"tier": "quick"}},
        ],
        "floors": {"quick": {"evaluations": 50_000_000}, "thorough": {"evaluations": 4_000_000_000}},
        "exhaustive": {"quick": False, "thorough": True},
        "assumptions": [REFCPU, "memory effects of each bus write are C10's subject; here writes are compared as (address, value, order)"],
    },
    "C06": {
        "title": "interpreter control flow, length, timing vs SM83 reference",
        "level": "exploration",
        "rule": "cases = (encoding, flag nibble, placement in ROM0/ROMN/WRAM/HRAM incl. region ends and straddles, SP/target values) executed by "
                "interpreter::run_next_op and compared (PC, SP, stack bytes and order, machine cycles taken/not-taken, block-end flag, status code; undefined "
                "opcodes must refuse to execute) with the reference model, plus decode()/is_block_end() for all 512 encodings; distinct_nontrivial counts "
                "distinct (encoding, flag nibble, 4 KiB page of the placement) / (opcode, SP high byte) / (JR opcode, origin, displacement) keys executed",
        "phases": [
            {"variant": "interp-dbg", "monitor": "c06", "shards": 16},
            {"variant": "interp-rel", "monitor": "c06", "shards": 16, "tiers": ("thorough",)},
        ],
        "floors": {"quick": {"evaluations": 2_000_000, "table-rows": 1000}, "thorough": {"evaluations": 8_000_000, "table-rows": 1000}},
        "exhaustive": {"quick": False, "thorough": False},
        "assumptions": [REFCPU],
    },
}

# properties not claimed (with reason); everything else is in CHECKS
_ALL = ["C%02d" % i for i in range(1, 21)]
NOT_APPLICABLE = [
    {"property_id": p, "reason": "check not built yet in this revision of /verif (work in progress; see DESIGN.md section 4 for the planned monitor)"}
    for p in _ALL if p not in CHECKS
]
