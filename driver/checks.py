"""Registry of build variants and per-property checks (phases = monitor x build variant)."""

VARIANTS = {
    # name: how the harness crate is built. Every variant compiles /repo/src into the harness.
    "interp-dbg": {"features": "verif"},
    "interp-rel": {"features": "verif", "release": True},
    "jit-dbg": {"features": "verif jit"},
    "jit-rel": {"features": "verif jit", "release": True},
    "jit-asan": {
        "features": "verif jit",
        "toolchain": "nightly",
        "target": "x86_64-unknown-linux-gnu",
        "rustflags": "-Zsanitizer=address -Cforce-frame-pointers=yes",
        "release": True,
    },
    "repo-bin": {"kind": "repo-bin", "features": ""},
    "repo-bin-jit": {"kind": "repo-bin", "features": "jit"},
}

REFCPU = "reference SM83 model /verif/harness/src/refmodel/cpu.rs (written from the public opcode tables, octal decode) is the oracle"

CHECKS = {
    "C05": {
        "title": "interpreter data semantics vs SM83 reference",
        "level": "exploration",
        "rule": "cases = (opcode, register image, operand placement) executed by interpreter::run_next_op on a real MemoryAreas and compared field by field "
                "(AF BC DE HL SP, F low nibble, bus writes in order, values within 0..65535) with the reference model; enumerated exhaustively per family "
                "(A x operand x F for 8-bit ALU, value x F for unary/CB, all 2^16 for INC/DEC rr, SP x e8 for SP offsets, every pointer value for memory forms); "
                "distinct_nontrivial counts distinct (family, opcode, high operand byte or A value, flag nibble) keys actually executed, unioned over shards",
        "phases": [
            {"variant": "interp-dbg", "monitor": "c05", "shards": 16, "tiers": ("quick",)},
            {"variant": "interp-rel", "monitor": "c05", "shards": 16, "tiers": ("thorough",)},
            {"variant": "interp-dbg", "monitor": "c05", "shards": 16, "tiers": ("thorough",), "name": "c05@interp-dbg(quick workload, overflow checks on)", "thorough_args": {"tier": "quick"}},
        ],
        "floors": {"quick": {"evaluations": 50_000_000}, "thorough": {"evaluations": 4_000_000_000}},
        "exhaustive": {"quick": False, "thorough": True},
        "assumptions": [REFCPU, "memory effects of each bus write are C10's subject; here writes are compared as (address, value, order)"],
    },
    "C06": {
        "title": "interpreter control flow, length, timing vs SM83 reference",
        "level": "exploration",
        "rule": "cases = (encoding, flag nibble, placement in ROM0/ROMN/WRAM/HRAM incl. region ends and straddles, SP/target values) executed by "
                "interpreter::run_next_op and compared (PC, SP, stack bytes and order, machine cycles taken/not-taken, block-end flag, status code; undefined "
                "opcodes must refuse to execute) with the reference model, plus decode()/is_block_end() for all 512 encodings; distinct_nontrivial counts "
                "distinct (encoding, flag nibble, 4 KiB page of the placement) / (opcode, SP high byte) / (JR opcode, origin, displacement) keys executed",
        "phases": [
            {"variant": "interp-dbg", "monitor": "c06", "shards": 16},
            {"variant": "interp-rel", "monitor": "c06", "shards": 16, "tiers": ("thorough",)},
        ],
        "floors": {"quick": {"evaluations": 2_000_000, "table-rows": 1000}, "thorough": {"evaluations": 8_000_000, "table-rows": 1000}},
        "exhaustive": {"quick": False, "thorough": False},
        "assumptions": [REFCPU],
    },
}

# properties not claimed (with reason); everything else is in CHECKS
_ALL = ["C%02d" % i for i in range(1, 21)]
NOT_APPLICABLE = [
    {"property_id": p, "reason": "check not built yet in this revision of /verif (work in progress; see DESIGN.md section 4 for the planned monitor)"}
    for p in _ALL if p not in CHECKS
]
