"""Registry of build variants and per-property checks (phases = monitor x build variant)."""

VARIANTS = {
    # name: how the harness crate is built. Every variant compiles /repo/src into the harness.
    "interp-dbg": {"features": "verif"},
    "interp-rel": {"features": "verif", "release": True},
    "jit-dbg": {"features": "verif jit"},
    "jit-rel": {"features": "verif jit", "release": True},
    "jit-asan": {
        "features": "verif jit",
        "toolchain": "nightly",
        "target": "x86_64-unknown-linux-gnu",
        "rustflags": "-Zsanitizer=address -Cforce-frame-pointers=yes",
        "release": True,
    },
    "interp-asan": {
        "features": "verif",
        "toolchain": "nightly",
        "target": "x86_64-unknown-linux-gnu",
        "rustflags": "-Zsanitizer=address -Cforce-frame-pointers=yes",
        "release": True,
    },
    "repo-bin": {"kind": "repo-bin", "features": ""},
    "repo-bin-jit": {"kind": "repo-bin", "features": "jit"},
    "repo-bin-rel": {"kind": "repo-bin", "features": "", "release": True},
    "repo-bin-jit-rel": {"kind": "repo-bin", "features": "jit", "release": True},
    # the harness under the Miri interpreter (no fork, no translated code, no file mmap); aliasing models off, see DESIGN section 5
    "miri": {"kind": "miri", "features": "verif", "toolchain": "nightly",
             "env": {"MIRIFLAGS": "-Zmiri-disable-isolation -Zmiri-disable-stacked-borrows"}},
}

ASAN_ENV = {"ASAN_OPTIONS": "abort_on_error=1:detect_leaks=0:symbolize=0"}
VALGRIND = ["valgrind", "-q", "--smc-check=all", "--error-exitcode=9", "--undef-value-errors=no"]


def miri_phase(monitor, total, timeout=5000):
    """16 workers under Miri, each one slice out of `total` slices of the monitor's quick workload"""
    return {"variant": "miri", "monitor": monitor, "shards": 16, "nshards_total": total, "tiers": ("thorough",), "worker_tier": "quick",
            "name": "%s@miri(16 of %d slices)" % (monitor, total), "timeout": timeout}

def asan_phase(monitor, args=None, variant="jit-asan"):
    """the monitor's whole quick workload again on an AddressSanitizer build (optimised; with or without the recompiler)"""
    return {"variant": variant, "monitor": monitor, "shards": 16, "tiers": ("thorough",), "worker_tier": "quick", "env": ASAN_ENV,
            "args": dict(args or {}), "name": "%s@%s(quick workload)" % (monitor, variant)}


def valgrind_stream_pair(monitor, total):
    """a slice of the program workload of c03/c04 under valgrind memcheck: the interpreter-only build records
    its own set of digest streams for the slice, the jit build replays it under memcheck (which also checks every
    load and store made by the generated x86 code)"""
    common = {"shards": 16, "nshards_total": total, "tiers": ("thorough",), "worker_tier": "quick"}
    w = dict(common, variant="interp-dbg", monitor=monitor, args={"role": "write", "stream-tag": "-vg"}, name="%s-interpreter-stream(16 of %d slices)" % (monitor, total))
    c = dict(common, variant="jit-dbg", monitor=monitor, args={"role": "compare", "stream-tag": "-vg", "sanitizer-exit": 9}, wrapper=VALGRIND,
             name="%s@valgrind-memcheck(16 of %d slices)" % (monitor, total), timeout=3000)
    return [w, c]


REFCPU = "reference SM83 model /verif/harness/src/refmodel/cpu.rs (written from the public opcode tables, octal decode) is the oracle"

CHECKS = {
    "C01": {
        "title": "translated block == interpreted block (registers, PC, SP, status, bus writes in order, device state, host integrity)",
        "level": "exploration",
        "rule": "cases = (ROM placement, block bytes, entry register image): the block is translated by CodeCache::translate_code_block and run through "
                "CodeCache::call (or a register-sentinel trampoline) on core A, and interpreted by interpreter::run_code_block on an identical core B; "
                "compared: AF BC DE HL SP PC (32-bit fields), status, hook-H1 bus-write logs (address, value, order), device/bank state digests, register-file "
                "canaries, callee-saved host registers, worker survival. distinct_nontrivial = distinct (family, opcode/immediate/pointer-page) keys executed",
        "phases": [
            {"variant": "jit-dbg", "monitor": "c01", "shards": 16},
            {"variant": "jit-rel", "monitor": "c01", "shards": 16, "tiers": ("thorough",)},
            # AddressSanitizer build: the compiled Rust around the translated code (cache bookkeeping, slices over the mmap'ed ROM, helpers)
            {"variant": "jit-asan", "monitor": "c01", "shards": 16, "tiers": ("thorough",), "args": {"sample": 1}, "worker_tier": "quick",
             "env": ASAN_ENV, "name": "c01@jit-asan(sample)"},
            # valgrind memcheck re-translates the generated x86 and checks every load/store it makes
            {"variant": "jit-dbg", "monitor": "c01", "shards": 16, "nshards_total": 400, "tiers": ("thorough",), "args": {"sample": 1, "sanitizer-exit": 9},
             "worker_tier": "quick", "wrapper": VALGRIND, "name": "c01@valgrind-memcheck(16 of 400 slices)", "timeout": 3000},
        ],
        # 244 unprefixed instructions (the CB prefix byte itself is not one) + 256 CB-prefixed = 500 executable encodings
        "floors": {"quick": {"evaluations": 3_000_000, "encodings-executed-x16-flags": 500, "cases:F9-bank-long-blocks": 100}, "thorough": {"evaluations": 20_000_000, "encodings-executed-x16-flags": 1000, "cases:F9-bank-long-blocks": 100}},
        "exhaustive": {"quick": False, "thorough": False},
        "assumptions": ["the repository's interpreter is the referee (as the property states); its own conformance is C05/C06",
                        "domain exclusions (counted): bank-register write inside a block executing from the switchable bank; blocks on which the interpreter itself panics"],
    },
    "C02": {
        "title": "translated and interpreted code charge identical machine cycles",
        "level": "exploration",
        "rule": "same executions as C01; compared: Registers.cycles after the block in both engines (reference cycle table as third voter in the witness); "
                "every one of the 501 encodings x 16 flag nibbles (both outcomes of every conditional) plus random multi-instruction blocks",
        "phases": [
            {"variant": "jit-dbg", "monitor": "c01", "shards": 16},
            {"variant": "jit-rel", "monitor": "c01", "shards": 16, "tiers": ("thorough",)},
        ],
        # 244 unprefixed instructions (the CB prefix byte itself is not one) + 256 CB-prefixed = 500 executable encodings
        "floors": {"quick": {"evaluations": 3_000_000, "encodings-executed-x16-flags": 500}, "thorough": {"evaluations": 20_000_000, "encodings-executed-x16-flags": 1000}},
        "exhaustive": {"quick": True, "thorough": True},
        "assumptions": ["exhaustive refers to the 501 encodings x 16 flag nibbles table; multi-instruction sums are sampled"],
    },
    "C03": {
        "title": "translation cache transparent across ROM bank switches",
        "level": "exploration",
        "rule": "cases = steps of bank-switch-heavy generated programs (MBC1/MBC3, 8-128 banks, every bank different code at the same entry addresses, bank selects through every "
                "register area, revisits, pairs of banks back to back, fall-through from bank 0 into the switchable bank). Three executions in lock-step: jit build with a warm "
                "cache, jit build with the cache emptied before every block, and the interpreter-only build (recorded digest stream); plus an invariant monitor on the cache "
                "view (hook H10): on every cache hit, the bytes the entry was translated from must equal the bytes mapped at PC now. distinct_nontrivial = distinct programs",
        "phases": [
            {"variant": "interp-dbg", "monitor": "c03", "shards": 16, "args": {"role": "write"}, "name": "c03-interpreter-stream"},
            {"variant": "jit-dbg", "monitor": "c03", "shards": 16, "args": {"role": "compare"}, "name": "c03-jit-warm-and-cold"},
        ] + valgrind_stream_pair("c03", 160),
        "floors": {"quick": {"steps-compared-with-interpreter-build": 500_000, "cache-hits-after-a-bank-switch": 5_000, "jit:bank-register-writes": 20_000, "cache-entries-observed": 2_000, "code-cache-restarts-observed": 1},
                   "thorough": {"steps-compared-with-interpreter-build": 5_000_000}},
        "exhaustive": {"quick": False, "thorough": False},
        "assumptions": ["a bank switch inside a block that executes from the switched bank is not generated (block-granular translation vs per-instruction fetch; see DESIGN)"],
    },
    "C04": {
        "title": "recompiler on/off equivalence for whole programs",
        "level": "exploration",
        "rule": "cases = steps of structured generated programs (loops, CALL/RET nests, interrupt handlers with RETI, timer/LCD/VBlank interrupts timed by the program itself, HALT, "
                "OAM DMA through an HRAM routine, code executed from work RAM, bank switches, serial output) advanced with the same symmetric block stepper in a build without "
                "and a build with the recompiler; after every step a 17-part digest (registers/IME/run state, every RAM, I/O registers, IF/IE, timer phase, LCD position, DMA "
                "progress, joypad latch, MBC registers, serial output so far, frame buffers every 64 steps) must be equal. distinct_nontrivial = distinct programs",
        "phases": [
            {"variant": "interp-dbg", "monitor": "c04", "shards": 16, "args": {"role": "write"}, "name": "c04-interpreter-stream"},
            {"variant": "jit-dbg", "monitor": "c04", "shards": 16, "args": {"role": "compare"}, "name": "c04-jit-compare"},
            {"variant": "interp-rel", "monitor": "c04", "shards": 16, "args": {"role": "write"}, "name": "c04-interpreter-stream-release", "tiers": ("thorough",)},
            {"variant": "jit-rel", "monitor": "c04", "shards": 16, "args": {"role": "compare"}, "name": "c04-jit-compare-release", "tiers": ("thorough",)},
            {"variant": "interp-dbg", "monitor": "c04r", "shards": 16, "also_build": ["repo-bin", "repo-bin-jit", "repo-bin-rel", "repo-bin-jit-rel"], "name": "c04-real-binaries(debug and release, jit on and off)",
             "env": {"GBV_REPO_BIN": "{repo_bin}", "GBV_REPO_BIN_JIT": "{repo_bin_jit}", "GBV_REPO_BIN_REL": "{repo_bin_rel}", "GBV_REPO_BIN_JIT_REL": "{repo_bin_jit_rel}"}},
        ] + valgrind_stream_pair("c04", 160),
        "floors": {"quick": {"steps-compared-with-interpreter-build": 600_000, "jit:dispatches:vblank": 100, "jit:dispatches:timer": 1_000, "jit:dma-transfers": 300,
                             "jit:ram-resident-blocks": 5_000, "jit:suspended-steps": 100_000, "jit:serial-bytes": 500, "code-cache-restarts-observed": 1, "runs-of-the-real-binaries": 60, "access-tests-in-the-programs": 600,
                             "relative-jump-ladder:sites-entered": 750, "blocks-entered-at-0000-after-a-dispatch-cancelled-by-its-push": 100},
                   "thorough": {"steps-compared-with-interpreter-build": 10_000_000, "runs-of-the-real-binaries": 300, "relative-jump-ladder:sites-entered": 750, "blocks-entered-at-0000-after-a-dispatch-cancelled-by-its-push": 100}},
        "exhaustive": {"quick": False, "thorough": False},
        "assumptions": ["the step-by-step comparison runs on builds that include the observation hooks; the hooks-off binaries (debug and release profile, recompiler on and off) are compared end to end through their serial output on generated ROMs"],
    },
    "C05": {
        "title": "interpreter data semantics vs SM83 reference",
        "level": "exploration",
        "rule": "cases = (opcode, register image, operand placement) executed by interpreter::run_next_op on a real MemoryAreas and compared field by field "
                "(AF BC DE HL SP, F low nibble, bus writes in order, values within 0..65535) with the reference model; enumerated exhaustively per family "
                "(A x operand x F for 8-bit ALU, value x F for unary/CB, all 2^16 for INC/DEC rr, SP x e8 for SP offsets, every pointer value for memory forms); "
                "distinct_nontrivial counts distinct (family, opcode, high operand byte or A value, flag nibble) keys actually executed, unioned over shards",
        "phases": [
            {"variant": "interp-dbg", "monitor": "c05", "shards": 16, "tiers": ("quick",)},
            {"variant": "interp-rel", "monitor": "c05", "shards": 16, "tiers": ("thorough",)},
            {"variant": "interp-dbg", "monitor": "c05", "shards": 16, "tiers": ("thorough",), "name": "c05@interp-dbg(quick workload, overflow checks on)", "thorough_args": {"tier": "quick"}},
            miri_phase("c05", 30000),
        ],
        "floors": {"quick": {"evaluations": 50_000_000}, "thorough": {"evaluations": 4_000_000_000}},
        "exhaustive": {"quick": False, "thorough": True},
        "assumptions": [REFCPU, "memory effects of each bus write are C10's subject; here writes are compared as (address, value, order)"],
    },
    "C06": {
        "title": "interpreter control flow, length, timing vs SM83 reference",
        "level": "exploration",
        "rule": "cases = (encoding, flag nibble, placement in ROM0/ROMN/WRAM/HRAM incl. region ends and straddles, SP/target values) executed by "
                "interpreter::run_next_op and compared (PC, SP, stack bytes and order, machine cycles taken/not-taken, block-end flag, status code; undefined "
                "opcodes must refuse to execute) with the reference model, plus decode()/is_block_end() for all 512 encodings; distinct_nontrivial counts "
                "distinct (encoding, flag nibble, 4 KiB page of the placement) / (opcode, SP high byte) / (JR opcode, origin, displacement) keys executed",
        "phases": [
            {"variant": "interp-dbg", "monitor": "c06", "shards": 16},
            {"variant": "interp-rel", "monitor": "c06", "shards": 16, "tiers": ("thorough",)},
            miri_phase("c06", 4000),
        ],
        "floors": {"quick": {"evaluations": 2_000_000, "table-rows": 1000, "cases:block-runner": 10_000}, "thorough": {"evaluations": 8_000_000, "table-rows": 1000, "cases:block-runner": 10_000}},
        "exhaustive": {"quick": False, "thorough": False},
        "assumptions": [REFCPU],
    },
    "C07": {
        "title": "interrupt dispatch: priority, masking, master enable, wake-up, push, cancellation",
        "level": "exploration",
        "rule": "cases = (IF, IE, master-enable state, run state, SP, PC) prepared on a Core built by the real loader; Core::handle_interrupt() called directly, "
                "and reached through Core::update() after a NOP / a suspended step; compared with a reference dispatcher: run state, master enable, PC/vector, SP "
                "(and its 16-bit range), IF, IE, cycles, and the hook-H1 write log (pushed bytes, addresses, order; no write at all without dispatch). All 32x32 IF/IE x 3 x 3 "
                "x 96-value SP lattice x 10 PC values, plus every SP value for dispatching configurations. distinct_nontrivial = distinct (IF, IE, IME, run) tuples per path",
        "phases": [
            {"variant": "interp-dbg", "monitor": "c07", "shards": 16},
            {"variant": "interp-rel", "monitor": "c07", "shards": 16, "tiers": ("thorough",)},
            {"variant": "jit-dbg", "monitor": "c07", "shards": 16, "tiers": ("thorough",)},
            asan_phase("c07"),
        ],
        "floors": {"quick": {"evaluations": 8_000_000, "dispatches-cancelled-by-push": 1000, "push-hits-IE": 1000, "push-hits-IF": 1000}, "thorough": {"evaluations": 60_000_000}},
        "exhaustive": {"quick": True, "thorough": True},
        "assumptions": ["accept-set: when only the second (low-byte) push changes IF/IE, a decision taken before or after it passes (counted)",
                        "exhaustive refers to the stated lattice (32x32x3x3 x SP lattice x PC list), thorough adds every SP value"],
    },
    "C08": {
        "title": "EI delay, DI/RETI immediacy, HALT/STOP suspension for every short sequence",
        "level": "exploration",
        "rule": "cases = every sequence of length 1..5 (thorough: 1..7) over {EI, DI, RETI, HALT, STOP, NOP, LD (HL),B with HL=FF0F, LD (DE),A with DE=FFFF} x 3 master-enable "
                "states x 3 run states x {nothing pending, pending+enabled, pending+masked}; one Core::update() per instruction in the build without jit; after every step "
                "(IME, run state, PC, SP, IF, IE) must equal the reference state machine. distinct_nontrivial = distinct sequences + distinct (IME, run, op) transition kinds",
        "phases": [
            {"variant": "interp-dbg", "monitor": "c08", "shards": 16, "tiers": ("quick",)},
            {"variant": "interp-rel", "monitor": "c08", "shards": 16, "tiers": ("thorough",)},
            asan_phase("c08", variant="interp-asan"),
        ],
        "floors": {"quick": {"evaluations": 900_000, "steps-compared": 5_000_000}, "thorough": {"evaluations": 50_000_000}},
        "exhaustive": {"quick": True, "thorough": True},
        "assumptions": ["sequences that execute HALT while an enabled interrupt is already pending are cut at that point (excluded by the property; counted)"],
    },
    "C09": {
        "title": "conservation of emulated time between CPU and devices; run_frame bounded",
        "level": "exploration",
        "rule": "cases = steps of generated programs (loops, calls, handlers, HALT, DMA, RAM-resident code, bank switches) under Core::update() and Core::run_code_block(); "
                "an offline checker over the per-step hook log requires: C(m) then D(4m) then S [then V]; m >= 1; suspended steps deliver exactly 4 clocks; a dispatch leaves 5 "
                "cycles that the next running step includes; m equals the static cost of the block (reference cycle table, branch outcome from the end PC); the timer "
                "phase and a shadow LCD advance by exactly D; run_frame() returns within 2 frame periods + one block of emulated time (bound armed in the hook, decided in "
                "emulated clocks). distinct_nontrivial = distinct (program, stepper) pairs",
        "phases": [
            {"variant": "interp-dbg", "monitor": "c09", "shards": 16},
            {"variant": "jit-dbg", "monitor": "c09", "shards": 16},
            asan_phase("c09"),
        ],
        "floors": {"quick": {"evaluations": 3_000_000, "dispatches": 5_000, "dispatches-cancelled-by-their-own-push": 500, "steps:halted-or-stopped": 100_000, "run_frame-calls": 500, "frame-synchronous-loops": 6},
                   "thorough": {"evaluations": 30_000_000, "frame-synchronous-loops": 6, "dispatches-cancelled-by-their-own-push": 500}},
        "exhaustive": {"quick": False, "thorough": False},
        "assumptions": [REFCPU, "an unbounded 'always terminates' is restated as bounded progress in emulated time"],
    },
    "C10": {
        "title": "every bus address decodes to the documented region",
        "level": "exploration",
        "rule": "cases = bus writes (address, value) inside random histories (bank registers, I/O, RAM) on MBC1+RAM, MBC3+RAM and ROM-only cores built by the real loader; "
                "after every write all 65536 addresses are read back and compared with a reference bus (shadow RAMs, I/O register model with defined-bit masks, learnt constants "
                "for unmapped cells, ROM/RAM windows identified from per-bank index bytes), and the fetch view is compared with the data view over ROM/WRAM/HRAM. "
                "Emulated time passes between some writes (4..72000 clocks, timer running in two thirds of the units): the registers that move with time (DIV, TIMA, IF, LY, "
                "STAT mode, OAM after a DMA) are re-learnt, everything else must read back unchanged after the elapse too. "
                "distinct_nontrivial = distinct (cartridge, written address) pairs",
        "phases": [
            {"variant": "interp-dbg", "monitor": "c10", "shards": 16, "tiers": ("quick",)},
            {"variant": "interp-rel", "monitor": "c10", "shards": 16, "tiers": ("thorough",)},
            asan_phase("c10", variant="interp-asan"),
        ],
        "floors": {"quick": {"evaluations": 15_000, "bytes-read-back-and-compared": 400_000_000, "elapses-followed-by-full-read-back": 2_000}, "thorough": {"evaluations": 390_000}},
        "exhaustive": {"quick": False, "thorough": True},
        "assumptions": ["no emulated time passes inside this monitor (reads are pure), so a full read-back is a faithful observation",
                        "thorough: every one of the 65536 addresses is a write target (two values each) on each of the three cartridges; the read-back probe is always the whole address space",
                        "the serial registers' read side and P1 bits 6-7 / STAT bit 7 are excluded, as the property states"],
    },
    "C11": {
        "title": "no guest-controlled bus access can crash the emulator",
        "level": "fault_enumeration",
        "rule": "cases = single bus accesses (read, write, word read, word write, stack-order word write, and the same five through the entry points translated code calls, with the upper bits of the argument registers set) on cores loaded through the real loader from generated files for every supported "
                "(type, ROM-size code, RAM-size code) combination, under every value written to each banking-register area and random register histories; the oracle is the "
                "survival of the worker process in a build with overflow checks (a death is attributed to the access announced in shared memory). "
                "distinct_nontrivial = distinct configurations exercised",
        "phases": [
            {"variant": "interp-dbg", "monitor": "c11", "shards": 16},
            # same accesses under AddressSanitizer: an out-of-bounds index that stays inside the ROM mapping's slack would not fault
            {"variant": "jit-asan", "monitor": "c11", "shards": 16, "tiers": ("thorough",), "worker_tier": "quick", "env": ASAN_ENV, "name": "c11@asan(quick workload)"},
        ],
        "floors": {"quick": {"evaluations": 100_000_000, "configurations": 120}, "thorough": {"evaluations": 1_000_000_000, "configurations": 504}},
        "exhaustive": {"quick": False, "thorough": False},
        "assumptions": ["quick: 3 ROM sizes per type; thorough: all 504 combinations, all 256 values per register area, full address sweeps after random histories"],
    },
    "C12": {
        "title": "MBC1/MBC3 bank selection follows the controller's register protocol",
        "level": "exploration",
        "rule": "cases = transitions (register state, area, value) of MBC1 (32x4x2 states x 3 areas x values), MBC3 (128 ROM-register states x 3 areas x values) and "
                "ROM-only carts, for ROM/RAM sizes from the header tables, plus random long histories; after each write the banks visible at 0x4000, 0x0000 and 0xA000 are read "
                "from per-bank index bytes and compared with a reference controller (masking, 0->1, upper bits, mode, reduction to the real size). "
                "distinct_nontrivial = distinct (configuration, register state) pairs reached",
        "phases": [
            {"variant": "interp-dbg", "monitor": "c12", "shards": 16},
            asan_phase("c12", variant="interp-asan"),
        ],
        "floors": {"quick": {"evaluations": 5_000_000, "configurations": 60}, "thorough": {"evaluations": 60_000_000, "configurations": 504}},
        "exhaustive": {"quick": False, "thorough": True},
        "assumptions": ["accept-set: MBC1 mode 1 with more than 32 banks may or may not apply the upper bits (counted)",
                        "MBC3 RAM-bank writes >= 4 (RTC select / unused) leave the RAM window unspecified until a value < 4 is written"],
    },
    "C13": {
        "title": "DIV/TIMA follow the divider; TAC glitch; reload + single request; batching independence",
        "level": "exploration",
        "rule": "cases = (TAC, 16-bit divider phase, TIMA, TMA, batch length) against a closed-form reference for all 8 TAC values x all 65536 phases x lengths around every period; "
                "all 8x8 TAC->TAC writes x 2048 phases (glitch); random histories of DIV/TIMA/TMA/TAC writes and elapsed time replayed per-clock, as single batches and with random "
                "partitions (must agree with each other and with a per-clock reference after every action), also through IO::set_byte/run_clock_cycles with IF bit 2. "
                "distinct_nontrivial = distinct (TAC, phase chunk) units, TAC transition pairs and histories",
        "phases": [{"variant": "interp-dbg", "monitor": "c13", "shards": 16, "tiers": ("quick",)},
                   {"variant": "interp-rel", "monitor": "c13", "shards": 16, "tiers": ("thorough",)}],
        "floors": {"quick": {"evaluations": 8_000_000, "overflows-expected": 10_000, "tac-glitch-increments": 1_000, "single-batches:301-5000-clocks": 20_000, "single-batches:over-5000-clocks": 2_000, "bus-level:oam-transfers-started": 2_000, "bus-level:overflows-expected": 300},
                   "thorough": {"evaluations": 200_000_000, "single-batches:over-5000-clocks": 2_000, "bus-level:oam-transfers-started": 2_000, "bus-level:overflows-expected": 300}},
        "exhaustive": {"quick": False, "thorough": False},
        "assumptions": ["accept-set: a DIV write while the selected divider bit is high (hardware counts an edge, the statement names only the TAC case): after it only DIV stays compared in that history (counted)"],
    },
    "C14": {
        "title": "LCD line/mode schedule, 70224-clock frame, VBlank/STAT requests, batching independence",
        "level": "exploration",
        "rule": "cases = batches of elapsed time on a VideoState (blank VRAM/OAM) for all 16 STAT enable masks x LYC values, 3 frames + 7 lines each, canonical 4-clock stepping and "
                "random partitions (multiples of 4 up to 80000 clocks); after every batch LY, mode, STAT bits 0-2 and the returned request set are compared with a closed-form "
                "schedule (position = elapsed mod 70224; requests = events inside the batch interval). distinct_nontrivial = distinct (mask, LYC, partition) runs",
        "phases": [{"variant": "interp-dbg", "monitor": "c14", "shards": 16}],
        "floors": {"quick": {"evaluations": 10_000_000, "vblank-requests-observed": 2_000, "stat-requests-observed": 50_000}, "thorough": {"evaluations": 100_000_000}},
        "exhaustive": {"quick": False, "thorough": False},
        "assumptions": ["requests made by the STAT/LYC writes themselves are outside this property (C10 models them)"],
    },
    "C15": {
        "title": "presented frame equals the reference composition of BG, window and objects",
        "level": "exploration",
        "rule": "cases = random scenes (tile data, both maps, 40 clustered objects with all attribute combinations, SCX/SCY, WX/WY in/out of range, palettes, all 64 values of LCDC "
                "bits 1-6) rendered by VideoState over one frame from power-on until the VBlank request; the 160x144 visible buffer must equal a pure reference renderer. "
                "Every second scene (thorough: every scene) is followed by a second frame on the same controller after the scene was changed during vertical blank (tile data "
                "redrawn, scroll/window moved by less than a tile, maps rewritten, objects moved, palettes and one LCDC bit, or a new scene); a third of the scenes use uniform tile maps. "
                "distinct_nontrivial = distinct scenes",
        "phases": [{"variant": "interp-dbg", "monitor": "c15", "shards": 16, "tiers": ("quick",)},
                   {"variant": "interp-rel", "monitor": "c15", "shards": 16, "tiers": ("thorough",)},
                   miri_phase("c15", 1920)],
        "floors": {"quick": {"evaluations": 1_800, "scenes-with-window-pixels": 300, "scenes-with-object-pixels": 450, "scenes-with-8x16-object-pixels": 180, "scenes-with-more-than-10-objects-on-a-line": 150,
                             "second-frames-after-a-change-in-vblank": 900, "frames-through-the-memory-bus": 400, "oam-transfers-during-those-frames": 500},
                   "thorough": {"evaluations": 19_000, "frames-through-the-memory-bus": 4_000}},
        "exhaustive": {"quick": False, "thorough": False},
        "assumptions": ["DMG behaviour; registers, VRAM and OAM constant over the frame, LCD and BG enabled (as the property states)"],
    },
    "C16": {
        "title": "OAM DMA copies exactly 160 bytes, one per machine cycle, through the normal map",
        "level": "exploration",
        "rule": "cases = transfers from each of the 256 source pages under partitions of the following time (1-cycle, 200, 160, 159, 80, random), source bytes edited between batches, "
                "restarts at every progress; the hook log (H1 writes, H2 reads) of every batch must be exactly reads XX00+i / writes FE00+i ascending with the values the normal map "
                "returns at that time, min(remaining, cycles) of them, nothing else written (RAM digests), inactive exactly after 160 cycles, final OAM equal across partitions. "
                "distinct_nontrivial = distinct source pages",
        "phases": [{"variant": "interp-dbg", "monitor": "c16", "shards": 16}, asan_phase("c16", variant="interp-asan")],
        "floors": {"quick": {"evaluations": 8_000, "restarts": 3_000, "bytes-copied-and-checked": 1_500_000, "partition-sets-under-other-device-configurations": 50, "frame-partition-sets-with-a-transfer-under-the-lcd": 10}, "thorough": {"evaluations": 40_000, "partition-sets-under-other-device-configurations": 50, "frame-partition-sets-with-a-transfer-under-the-lcd": 10}},
        "exhaustive": {"quick": False, "thorough": False},
        "assumptions": ["source values are sampled by the monitor immediately before each batch, i.e. at catch-up granularity"],
    },
    "C17": {
        "title": "P1 reflects the button matrix; joypad interrupt on falling lines, reported once",
        "level": "exploration",
        "rule": "cases = the complete transition relation: 256 button states x 4 selections x 20 actions (8 presses, 8 releases, 4 selection writes), on the Joypad device and through "
                "IO (FF00 write/read-back, IF bit 4 collected by run_clock_cycles, a second collection must report nothing). distinct_nontrivial = distinct (buttons, selection, action)",
        "phases": [{"variant": "interp-dbg", "monitor": "c17", "shards": 16}, miri_phase("c17", 256)],
        "floors": {"quick": {"evaluations": 40_960, "transitions-with-a-falling-line": 2900}, "thorough": {"evaluations": 40_960}},
        "exhaustive": {"quick": True, "thorough": True},
        "assumptions": [],
    },
    "C18": {
        "title": "serial transfers appear on standard output in order; nothing else does",
        "level": "exploration",
        "rule": "cases = generated programs issuing arbitrary SB/SC write sequences (LDH, LD (a16), LD (C), LD (HL)) from ROM (translated in jit builds), work RAM and high RAM, "
                "and structured programs with handlers/HALT/DMA/bank switches; file descriptor 1 of the worker is captured and must equal, byte for byte, the SB value at each SC "
                "write with bit 7 (from the hook-H1 log); jit build: translation-cache pressure without serial writes must leave stdout empty; quiet sweep: every value written to "
                "every bank-register area and every I/O register (except SC with bit 7) of 8 cartridge kinds, cartridge RAM accesses, LCD off/on and two frames of time must leave stdout empty; end to end: the repository's own "
                "binaries (hooks off, jit on and off) must print exactly the loader line plus the serial bytes. distinct_nontrivial = distinct programs",
        "phases": [
            {"variant": "interp-dbg", "monitor": "c18", "shards": 16, "also_build": ["repo-bin", "repo-bin-jit"],
             "env": {"GBV_REPO_BIN": "{repo_bin}", "GBV_REPO_BIN_JIT": "{repo_bin_jit}"}},
            {"variant": "jit-dbg", "monitor": "c18", "shards": 16, "args": {"noreal": 1}},
        ],
        "floors": {"quick": {"evaluations": 500, "long-lines:transfers": 70_000, "sc-writes-with-bit7": 5_000, "sc-writes-without-bit7": 1_000, "runs-of-the-real-binaries": 30, "cache-pressure:blocks-translated": 5_000,
                             "quiet-sweep:writes-with-stdout-captured": 1_000_000},
                   "thorough": {"evaluations": 3_000}},
        "exhaustive": {"quick": False, "thorough": False},
        "assumptions": ["the end-to-end part waits until the binary's output has been quiet for 150 ms before stopping it (wall clock only bounds the wait; a slow machine can only make the run longer)"],
    },
    "C19": {
        "title": "ROM files validated by header checksum, sized from the header tables, rejected cleanly",
        "level": "fault_enumeration",
        "rule": "cases = (a) complete files with random header bytes, exhaustive over the checksum byte, the type byte and both size bytes: valid_checksum / ROM size / RAM size vs the "
                "header tables; (b) files of 0, 0xFF, 0x100, 0x14F, 0x150, declared-4097, declared-4096, declared-1, declared, declared+1, declared+4096 bytes x good/corrupt checksum x "
                "cartridge types x ROM sizes, each loaded in an isolated child that then touches the first, middle and last declared ROM byte (exit status is the oracle: accepted, "
                "rejected, controlled panic, or fault); (c) a sample of the same files through the repository's own binary. distinct_nontrivial = distinct (part, byte value) and (type, size) units",
        "phases": [
            {"variant": "interp-dbg", "monitor": "c19", "shards": 16, "also_build": ["repo-bin"], "env": {"GBV_REPO_BIN": "{repo_bin}"}},
        ],
        "floors": {"quick": {"evaluations": 5_000, "headers-decoded": 4_000, "files-loaded-in-isolation": 900, "files-accepted": 50, "files-rejected": 500, "runs-of-the-real-binary": 100},
                   "thorough": {"evaluations": 40_000}},
        "exhaustive": {"quick": False, "thorough": False},
        "assumptions": ["a panic with a message at load time (exit status 101) counts as controlled termination; a signal never does",
                        "undocumented size codes are unspecified and not compared"],
    },
    "C20": {
        "title": "debugger command parsing is total and exact; disassembly tiles instruction sequences",
        "level": "exploration",
        "rule": "cases = all 65536 addresses in 11 spellings (decimal, zero padded, 0x-hex lower/upper/padded, ASCII and Unicode whitespace) through parse_address and inside commands; "
                "out-of-range and malformed spellings (must be None); every letter-case pattern of every command word with whitespace decorations; random Unicode lines (must return); "
                "random sequences of complete instructions (all 512 encodings, starts near 0xFFFF) through disassemble(): count, wrapping addresses, byte groups and lengths "
                "vs the reference length table and decoder::decode, via the Display rendering. distinct_nontrivial = distinct units (address pages, words, line chunks, sequence chunks)",
        "phases": [{"variant": "interp-dbg", "monitor": "c20", "shards": 16}, miri_phase("c20", 3000)],
        "floors": {"quick": {"evaluations": 1_000_000, "address-spellings-parsed": 700_000, "command-lines": 1_000, "unicode-lines": 150_000, "instruction-sequences-tiled": 30_000, "tilings-of-sequences-longer-than-65536-bytes": 4,
                             "malformed-or-out-of-range-rejected": 2_000},
                   "thorough": {"evaluations": 5_000_000}},
        "exhaustive": {"quick": False, "thorough": False},
        "assumptions": ["a leading '+' and an upper-case 0X prefix are left unspecified"],
    },
}

# properties not claimed (with reason); everything else is in CHECKS
_ALL = ["C%02d" % i for i in range(1, 21)]
NOT_APPLICABLE = [
    {"property_id": p, "reason": "check not built yet in this revision of /verif (work in progress; see DESIGN.md section 4 for the planned monitor)"}
    for p in _ALL if p not in CHECKS
]
