"""Per-check texts for MANIFEST.json: what assurance the check gives, what it trusts, the deciding technique."""

COMMON_TRUST = ("Runtime monitoring: the verdict covers the executions that were produced (counted in the evidence), not all inputs. "
                "Trusted base: the harness and its reference models under /verif/harness, the cargo/rustc toolchain, and the observation hooks "
                "(feature `verif`, add-only, observe-only).")

LEVEL_TEXT = {
    "C01": "Differential runtime monitoring: every executable encoding, exhaustive or lattice register sweeps, every pointer/SP value, all JR displacements and random blocks are translated and "
           "executed by the real cache/emitter and compared field by field (registers, status, bus-write log in order, device/bank digests, canaries, callee-saved host registers, worker survival) "
           "with the real interpreter on an identical core; thorough repeats in release, under AddressSanitizer and under valgrind memcheck (which sees the loads/stores of translated code). "
           "Exploration is the honest level: the input space is finite per instruction but the block space is not.",
    "C02": "Same executions as C01, comparing the machine cycles each engine charges; the 500 executable encodings x 16 flag nibbles (both outcomes of every conditional) are enumerated completely, "
           "multi-instruction sums are sampled.",
    "C03": "Three executions in lock-step (warm cache, cache emptied before every block, interpreter-only build) plus an online invariant monitor on the cache view: on every cache hit the bytes the "
           "entry was translated from must equal the bytes mapped at PC now. Workload: bank-switch-heavy programs incl. bank numbers that wrap onto bank 0 and fall-through from bank 0.",
    "C04": "Cross-build differential monitoring: the interpreter-only build records a 17-part state digest after every block step of generated programs; the jit build replays the same program and "
           "compares after every step (debug pair in quick, debug + release pairs in thorough).",
    "C05": "Reference-model monitor: the interpreter's result of every data instruction is compared with an independently written SM83 model; 8-bit forms exhaustively over A x operand x F, "
           "INC/DEC rr over 2^16, SP offsets over 2^16 x 2^8, ADD HL,BC over all 2^32 pairs in the thorough tier; a Miri pass executes a slice of the same workload.",
    "C06": "Reference-model monitor for PC, SP, stack bytes and order, taken/not-taken cycles, block-end flag, status code and refusal of undefined opcodes, for all 512 encodings x 16 flag "
           "nibbles x placements in every executable region (incl. region ends and straddles), all JR displacements from wrap-prone origins, every SP for stack instructions.",
    "C07": "Reference-model monitor over the stated lattice (all IF x IE x master-enable x run state x SP lattice x PC values that cancel/keep/re-prioritise), plus every SP value for dispatching "
           "configurations; handle_interrupt() directly and through update().",
    "C08": "Online checker of a trace specification: every sequence up to length 5 (7 in thorough) over the property's alphabet, from every initial master-enable/run/pending state, stepped one "
           "instruction at a time and compared with a reference state machine after every step.",
    "C09": "Offline checker over per-step hook logs (consume / deliver / sample / dispatch / bus writes): conservation delivered = 4 x consumed, order, minimum progress, five dispatch cycles carried, "
           "independent static block cost, timer phase and shadow LCD advance, and run_frame bounded in emulated time by a bound armed inside the hook.",
    "C10": "Reference-bus monitor: after every write of a history the whole address space is read back and compared (shadow RAMs, I/O register model, learnt constants for unmapped cells, bank "
           "windows identified from per-bank index bytes) and the fetch view is compared with the data view; thorough makes every address a write target on three cartridges.",
    "C11": "Fault enumeration with process survival as the oracle: every supported header combination is loaded through the real loader and every access kind is performed at probe/all addresses "
           "under every banking-register value and random histories, in a build with overflow checks; a death is attributed to the access announced in shared memory. Thorough repeats under ASan.",
    "C12": "Reference-controller monitor over the complete transition relation of MBC1 and MBC3 (every register state x area x value) for every ROM/RAM size, visible banks read from index bytes.",
    "C13": "Reference-model monitor (closed form + per-clock) over all TAC values x all divider phases x batch lengths, all TAC->TAC glitches, and metamorphic partition-invariance over random histories.",
    "C14": "Closed-form schedule monitor: LY, mode, STAT bits and the returned request set after every batch, for all enable masks x LYC values under canonical and random partitions.",
    "C15": "Reference-renderer monitor: whole-frame equality with a pure reference composition over random scenes covering all LCDC bit combinations; one Miri slice (the pipeline contains unreachable_unchecked).",
    "C16": "Hook-log monitor: the exact read/write sequence of every batch of a transfer is compared with the reference copy, for all 256 pages, partitions, mid-transfer source edits and restarts.",
    "C17": "Reference-model monitor over the complete transition relation (256 x 4 x 20), on the device and through the I/O decoder.",
    "C18": "Output-stream monitor: fd 1 of the worker is captured and compared byte for byte with the stream implied by the logged SB/SC writes, for code in ROM/WRAM/HRAM in both builds; "
           "plus end-to-end runs of the repository's own binaries and a translation-cache pressure run.",
    "C19": "Fault enumeration over file lengths and header bytes: isolated child processes load each file through the loader sequence and touch the declared ROM; exit status (accepted / "
           "rejected / controlled panic / signal) is the oracle; header tables compared exhaustively over the four header bytes; a sample through the real binary.",
    "C20": "Total-function monitor (catch_unwind) with exact-value oracles over all 65536 addresses in 11 spellings, malformed inputs, all case patterns, random Unicode lines, and "
           "instruction-sequence tilings checked against the reference length table and the decoder; a Miri slice covers the unchecked slice operation.",
}

TECHNIQUE = {
    "C01": "runtime monitoring: differential execution (translated vs interpreted) + host-integrity sentinels + ASan + valgrind memcheck",
    "C02": "runtime monitoring: differential execution of cycle counters",
    "C03": "runtime monitoring: online cache invariant + 3-way differential (warm / cold cache / interpreter build)",
    "C04": "runtime monitoring: cross-build digest streams compared after every step",
    "C05": "runtime monitoring: reference-model oracle over exhaustive operand enumeration (+ Miri slice)",
    "C06": "runtime monitoring: reference-model oracle over encodings x flags x placements (+ Miri slice)",
    "C07": "runtime monitoring: reference dispatcher over an exhaustive state lattice",
    "C08": "runtime monitoring: online trace checker over all bounded sequences",
    "C09": "runtime monitoring: offline checker over recorded hook event logs (conservation, order, bounded progress)",
    "C10": "runtime monitoring: reference bus, full read-back after every write",
    "C11": "fault enumeration: process-survival oracle with crash attribution (+ ASan)",
    "C12": "runtime monitoring: reference controller over the complete transition relation",
    "C13": "runtime monitoring: reference model + partition-invariance (metamorphic) over histories",
    "C14": "runtime monitoring: closed-form schedule oracle under random batch partitions",
    "C15": "runtime monitoring: reference renderer, whole-frame comparison (+ Miri slice)",
    "C16": "runtime monitoring: exact read/write event-log comparison per batch",
    "C17": "runtime monitoring: reference model over the complete transition relation (+ Miri slice)",
    "C18": "runtime monitoring: captured stdout vs stream implied by logged register writes; end-to-end binary runs",
    "C19": "fault enumeration: isolated loader children, exit-status oracle; header tables vs reference",
    "C20": "runtime monitoring: totality (catch_unwind) + exact-value oracles (+ Miri slice)",
}
